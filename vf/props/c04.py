"""C04 — string, number and identifier tokens keep exactly the value the SQL text denotes; values placed in a tree
print to text that denotes the same value.

Oracle: vf/oracles/reflex.py (reference lexical denotation written from the lexers' token shapes).
Decode: literal / path / number / variable *texts* assembled from lexical units -> parse_sql -> the value in the tree
must be (one of) the denoted value(s).  Encode: values placed in Constant / Identifier / Variable -> to_string() ->
the text, read by the reference reader AND by the library's own parser, must denote the value again.
Bounded-exhaustive parts are enumerated deterministically and split over the shards; the rest is Hypothesis.
"""
import itertools, math, re
from decimal import Decimal
from fractions import Fraction
from hypothesis import strategies as st

from vf import findings, hyp
from vf.oracles import reflex
from vf.props.c02 import site_of

PROPERTY = 'C04'
RULE = ('cases = decode: (dialect, context, text of one string literal / identifier path / number / @variable assembled '
        'from lexical units) and encode: (dialect, value placed in Constant / Identifier / Variable); judged against the '
        'reference denotation of vf/oracles/reflex.py (decode: tree value in the admitted set; encode: printed text read by '
        'the reference reader and by parse_sql gives the value back); non-trivial = the statement is accepted (decode) '
        'or printed (encode) and the text/value contains a quote, back-quote, backslash, dot, blank, newline or '
        'non-ASCII character, or is empty, digit-first, a keyword, or a number with sign, leading zero, >= 16 '
        'significant digits or an exponent repr; distinct by (direction, kind, dialect, statement text / value); also '
        'decode of a text that holds its own delimiter doubled ("a""b", `a``b`, mysql/sqlite \'a\'\'b\') in every literal / '
        'name context, judged by the reader _dbl_value of this module (non-trivial = accepted), every keyword followed by '
        '`$` as a plain name, and encode of Decimal values (exact denotation of the printed token)')
ASSUMPTIONS = [
    'the identifier path in front of a call (ns.f(...)) is judged as [namespace,] name: no part may be dropped or taken for another; '
    'the function\'s own name is compared modulo letter case and runs of white space (every operation node normalises its name that way)',
    'reference denotation = my reading of the token shapes (regexes) the three lexers declare; a backslash pairs with the '
    'next character in the mindsdb dialect, so \\\\ denotes one backslash; every other \\c except \\\' \\" is left open '
    '(admits `\\c`, `c` and MySQL\'s control character)',
    'mysql/sqlite dialect literals have no escape form: raw content',
    'decimals denote the nearest IEEE double; -N may be held as Constant(-N) or as unary minus over Constant(N)',
    'an integer identifier part (mindsdb `a.007`) denotes the digits as written (a name part, not a number: `a.007` and '
    'a.`007` name the same column)',
    'inside a literal or quoted name delimited by q (one of \' " `) the doubled delimiter qq denotes one q (standard SQL; '
    'the property names doubled quotes); such texts are judged by the reader of this module (_dbl_value), in every '
    'dialect, and only when the statement is accepted',
    'a plain word is the longest run of [A-Za-z0-9_$] (the ID shape): a keyword followed by `$` is a part of a longer name',
    'a decimal beyond the double range has no nearest double: only an exact holder (int / Decimal) is admitted',
    'Constant(Decimal) must print to a number token that denotes exactly that decimal',
    'a statement the parser rejects is outside the property (counted, not failed)',
    'encode: values with no spelling in the token shapes are excluded and counted (identifier part empty; variable name not starting with [A-Za-z_.$] or using all three quotes; inf/nan; a single quote in a '
    'string for the mysql/sqlite dialects)',
    'an unquoted printed keyword counts as denoting the name iff the library parser takes it back as that name',
]
# calibrated on the unchanged tree: <= 1/3 of the minimum over 6 seeds at 4 shards (quick), <= 1/4 of an 8-shard run
# (thorough; <= 1/6 for the classes fed only by the random part, whose volume scales with the number of shards)
FLOORS = {
    'quick': {'__nontrivial__': 15000, 'decode:str': 2000, 'decode:path': 10000, 'decode:num': 500, 'decode:var': 350,
              'encode:str': 550, 'encode:path': 2000, 'encode:num': 60, 'encode:var': 50, 'exact': 2000,
              'open-escape': 250, "unit:''": 140, 'unit:\\\\': 200, 'empty-string': 50, 'str:dq': 900,
              'part:dq': 1500, 'part:bq': 3500, 'part:quoted-dot': 1000, 'part:keyword-word': 7000,
              'part:digit-first': 600, 'part:uppercase': 8000, 'blank-around-dot': 4000, 'num:>=16-digits': 100,
              'num:int>2^53': 50, 'num:negative': 300, 'epart:kw': 1500, 'v:backslash-unsafe': 90, 'v:non-ascii': 50,
              'erepr:exponent': 15, 'dialect:mysql': 4000, 'dialect:sqlite': 3000,
              # added with E7 / E8 and the Decimal grid (mostly enumerated: <= 1/3 of the minimum over 4 seeds at 8 shards)
              'decode:dbl': 1500, 'dbl-accepted:dq': 60, 'dbl-accepted:bq': 40, 'part:kw-then-dollar': 250, 'part:int-leading-zero': 30,
              'num:beyond-double': 30, 'encode:dec': 50, 'epart:p:backquote': 400, 'function-name': 150},
    'thorough': {'__nontrivial__': 240000, 'decode:str': 150000, 'decode:path': 55000, 'decode:num': 2000,
                 'decode:var': 2300, 'encode:str': 20000, 'encode:path': 5000, 'encode:num': 800, 'encode:var': 700,
                 'exact': 120000, 'open-escape': 30000, "unit:''": 23000, 'unit:\\\\': 28000, 'empty-string': 180,
                 'str:dq': 48000, 'part:dq': 19000, 'part:bq': 43000, 'part:quoted-dot': 16000,
                 'part:keyword-word': 9000, 'part:digit-first': 11000, 'part:uppercase': 26000,
                 'blank-around-dot': 28000, 'num:>=16-digits': 350, 'num:int>2^53': 80, 'num:negative': 950,
                 'epart:kw': 3800, 'v:backslash-unsafe': 5000, 'v:non-ascii': 1200, 'erepr:exponent': 250,
                 'dialect:mysql': 60000, 'dialect:sqlite': 59000,
                 # the quick-tier floors (the thorough spaces contain the quick ones)
                 'decode:dbl': 1500, 'dbl-accepted:dq': 60, 'dbl-accepted:bq': 40, 'part:kw-then-dollar': 250, 'part:int-leading-zero': 30,
                 'num:beyond-double': 30, 'encode:dec': 50, 'epart:p:backquote': 400},
}
N = {'quick': 1200, 'thorough': 20000}

DIALECTS = reflex.DIALECTS

# ------------------------------------------------------------------------------------------------ unit alphabets
SQ_UNITS = ['a', ' ', '"', "''", "\\'", '\\"', '\\\\', '\\n', '%', '`', '.', '-- ']   # mindsdb '...'
DQ_UNITS = ['a', ' ', "'", "\\'", '\\"', '\\\\', '\\n', '%']                          # mindsdb "..."
RAW_SQ_UNITS = ['a', 'n', ' ', '"', '\\', '%', '`', '\n', '--']                             # mysql / sqlite '...'
RAW_DQ_UNITS = ['a', 'n', ' ', "'", '\\', '%', '`', '\n', '--']                             # mysql / sqlite "..."
ENC_ALPHA = ['a', "'", '"', '\\', ' ', '%', '\n', '`']                                 # values (encode)
DQI_UNITS = ['a', '.', ' ', '`', '\\"', "'", '\\\\', '1']                              # mindsdb "..." as identifier
BQ_CHARS = ['a', '.', ' ', "'", '"', '\\', '1', '-']                                   # `...` content
EXH_LEN = {'quick': {'sq': 3, 'dq': 3, 'raw': 3, 'enc': 3, 'dqi': 3, 'bq': 3, 'path': 2, 'epath': 2, 'dbl': 3},
           'thorough': {'sq': 5, 'dq': 5, 'raw': 5, 'enc': 5, 'dqi': 4, 'bq': 4, 'path': 3, 'epath': 2, 'dbl': 4}}

SPECIAL = set('\'"`\\. \t\r\n')


def units_for(d, q):
    if d in reflex.ESCAPING:
        return SQ_UNITS if q == "'" else DQ_UNITS
    return RAW_SQ_UNITS if q == "'" else RAW_DQ_UNITS


# ------------------------------------------------------------------------------------------------ contexts
LIT_CTX = {
    'select': ('SELECT {x}', lambda t: t.targets[0]),
    'select-from': ('SELECT {x} FROM t', lambda t: t.targets[0]),
    'where': ('SELECT * FROM t WHERE c = {x}', lambda t: t.where.args[1]),
    'in': ("SELECT * FROM t WHERE c IN ('k', {x})", lambda t: t.where.args[1].items[1]),
    'insert': ('INSERT INTO t (a, b) VALUES (1, {x})', lambda t: t.values[0][1]),
    'func': ('SELECT f({x}, 1) FROM t', lambda t: t.targets[0].args[0]),
}
PATH_CTX = {
    'target': ('SELECT {x} FROM t', lambda t: t.targets[0]),
    'from': ('SELECT * FROM {x}', lambda t: t.from_table),
    'where': ('SELECT * FROM t WHERE {x} = 1', lambda t: t.where.args[0]),
    'order': ('SELECT * FROM t ORDER BY {x}', lambda t: t.order_by[0].field),
    'insert': ('INSERT INTO {x} (a) VALUES (1)', lambda t: t.table),
    'func': ('SELECT f({x}) FROM t', lambda t: t.targets[0].args[0]),
}
# the name of a function call is an identifier path too: <namespace>.<name>(...)  (decode direction only)
FN_CTX = {
    'fname': ('SELECT {x}(a) FROM t', lambda t: t.targets[0]),
    'fname-distinct': ('SELECT {x}(DISTINCT a) FROM t', lambda t: t.targets[0]),
    'fname-noargs': ('SELECT {x}() FROM t', lambda t: t.targets[0]),
    'fname-star': ('SELECT {x}(*) FROM t', lambda t: t.targets[0]),
    'fname-where': ('SELECT * FROM t WHERE {x}(a, 1) = 1', lambda t: t.where.args[0]),
}
VAR_CTX = {k: LIT_CTX[k] for k in ('select', 'select-from', 'where', 'func')}
SEPS = ['.', ' . ', '. ', ' .', '\n.\n', ' /* c */ . ']

_KWID = {}       # dialect -> keyword words the grammar takes as a name (probed in prepare; generator calibration)
_KWALL = {}      # dialect -> all keyword words


def prepare(tier):
    from mindsdb_sql import parse_sql
    assert reflex.selftest()
    for d in DIALECTS:
        words = []
        for name, w in reflex.keyword_words(d):
            if w not in words:
                words.append(w)
        _KWALL[d] = words
        ok = []
        for w in words:
            if ' ' in w:
                continue
            try:
                t = parse_sql(f'SELECT {w} FROM t', d).targets[0]
                if type(t).__name__ == 'Identifier' and t.parts == [w]:
                    ok.append(w)
            except Exception:
                pass
        _KWID[d] = ok


# ------------------------------------------------------------------------------------------------ helpers

def _parse(sql, d):
    from mindsdb_sql import parse_sql
    from mindsdb_sql.exceptions import ParsingException
    from sly.lex import LexError
    try:
        return 'ok', parse_sql(sql, d)
    except (ParsingException, LexError) as e:
        return 'rejected', e
    except RecursionError as e:
        return 'crash', e
    except Exception as e:
        return 'crash', e


def _has_special(s):
    return any((c in SPECIAL) or ord(c) > 127 for c in s)


def _short(x, n=120):
    r = repr(x)
    return r if len(r) <= n else r[:n] + '...'


def _cls(node):
    return type(node).__name__


def _number_of(node):
    """Numeric value held by a Constant or by unary minus over a Constant; else None."""
    c = _cls(node)
    if c == 'Constant':
        v = node.value
        if isinstance(v, bool) or not isinstance(v, (int, float, Decimal)):
            return None
        return v
    if c == 'UnaryOperation' and node.op == '-' and len(node.args) == 1 and _cls(node.args[0]) == 'Constant':
        v = node.args[0].value
        if isinstance(v, bool) or not isinstance(v, (int, float, Decimal)):
            return None
        return -v
    return None


def _beyond_double(exact):
    try:
        float(exact)
        return False
    except OverflowError:
        return True


def _same_number(v, kind, exact):
    """reflex.same_number, plus: an exact holder (Decimal) is admitted when it holds the value exactly, and a decimal
    beyond the double range (no nearest double exists) is admitted only in an exact holder."""
    if isinstance(v, Decimal):
        return v.is_finite() and Fraction(v) == exact
    if kind == 'int' or isinstance(v, int):
        return v == exact
    if _beyond_double(exact):
        return False
    return v == float(exact)


def _parts_repr(parts):
    return [p if isinstance(p, str) else '<' + _cls(p) + '>' for p in parts]


# ------------------------------------------------------------------------------------------------ decode: strings

_QUOTE_RUN = re.compile("'+")


def _str_diagnosis(den, q, observed):
    """Tags that separate root causes of a wrong string value (classification only; the verdict is the oracle's).

    Preconditions read off the text: q:sq|q:dq; unit:bsbs = the literal contains the unit \\ ; bsbs-before-quote-char =
    some \\ unit is directly followed by a quote character of the text (closing delimiter, '' or a plain quote);
    escaped-quotes-in-run = a run of adjacent quote-denoting units ('' and \') holds two or more \' units.
    diff:<names> = the smallest combination of known distortions that turns the denoted value into the observed one:
    bsbs-kept (every \\ unit comes out as two backslashes), edge-quotes-lost (value.strip(quote)), quote-runs-shortened
    (some run of single quotes is shorter, nothing else differs); diff:other when no combination does."""
    f = ['q:sq' if q == "'" else 'q:dq']
    srcs = den.sources()
    if '\\\\' in srcs:
        f.append('unit:bsbs')
        for i, s_ in enumerate(srcs):
            if s_ == '\\\\' and (i == len(srcs) - 1 or srcs[i + 1][0] in '\'"'):
                f.append('bsbs-before-quote-char')
                break
    if q == "'":
        esc_in_run = 0
        for s_ in srcs + ['x']:
            if s_ == "\\'":
                esc_in_run += 1
                if esc_in_run >= 2:
                    f.append('escaped-quotes-in-run')
                    break
            elif s_ != "''":
                esc_in_run = 0
    if not isinstance(observed, str):
        f.append('diff:not-a-string')
        return f
    exp = den.canonical
    exp_b = ''.join('\\\\' if s_ == '\\\\' else a[0] for s_, a in den.units)
    best = None
    for b_ in ((False, True) if exp_b != exp else (False,)):
        for a_ in (False, True):
            for d_ in ((False, True) if q == "'" else (False,)):
                v = exp_b if b_ else exp
                if a_:
                    v = v.strip(q)
                    if v == (exp_b if b_ else exp):
                        continue
                hit = (_QUOTE_RUN.sub("'", v) == _QUOTE_RUN.sub("'", observed) and len(observed) < len(v)) if d_ \
                    else (v == observed)
                if hit:
                    names = [n for n, on in (('bsbs-kept', b_), ('edge-quotes-lost', a_), ('quote-runs-shortened', d_)) if on]
                    if best is None or len(names) < len(best):
                        best = names
    f.append('diff:' + ('+'.join(best) if best else 'other'))
    return f


def judge_dstr(case, col):
    d, q, units, ctx = case['d'], case['q'], case['u'], case['ctx']
    lit = q + ''.join(units) + q
    den = reflex.read_whole_quoted(lit, d)
    if den is None or ''.join(den.sources()) != ''.join(units):
        raise AssertionError(f'generator/reader disagreement on literal {lit!r} ({d})')
    tmpl, get = LIT_CTX[ctx]
    sql = tmpl.format(x=lit)
    cfg = {'dialect': d}
    st_, r = _parse(sql, d)
    classes = ['decode', 'decode:str', 'dialect:' + d, 'str:' + ('sq' if q == "'" else 'dq'), 'ctx:' + ctx]
    out = []
    if st_ == 'crash':
        col.excluded('internal-error (C02)')
        return []
    if st_ == 'rejected':
        classes.append('rejected')
    else:
        classes.append('accepted')
        classes.append('open-escape' if den.open else 'exact')
        for s in sorted(set(den.sources())):
            if len(s) > 1 and (s[0] == '\\' or s == "''"):
                classes.append('unit:' + ("''" if s == "''" else ('\\' + ('x' if s[1] not in '\'"\\n' else s[1]))))
        if not den.units:
            classes.append('empty-string')
        node = get(r)
        if _cls(node) != 'Constant':
            out.append(findings.record('decode-shape', 'Constant', ['q:sq' if q == "'" else 'q:dq', 'node:' + _cls(node)],
                                       cfg, f'literal {lit} read as {_cls(node)}', sql))
        elif not den.admits(node.value):
            out.append(findings.record('decode-value', 'Constant.value', _str_diagnosis(den, q, node.value), cfg,
                                       f'literal {_short(lit)} denotes {_short(den.canonical)}'
                                       f'{" (open escapes)" if den.open else ""}; tree holds {_short(node.value)}', sql))
    nontrivial = st_ == 'ok' and (not den.units or _has_special(lit[1:-1]))
    col.case(('dstr', d, sql), nontrivial, classes, {'kind': 'decode-string', 'dialect': d, 'sql': sql,
                                                     'denotes': den.canonical, 'open': den.open})
    return out


# ------------------------------------------------------------------------------------------------ decode: paths

def _part_text(style, v):
    if style == 'w' or style == 'int':
        return v
    if style == 'bq':
        return '`' + v + '`'
    if style == 'dq':
        return '"' + ''.join(v) + '"'
    if style == 'star':
        return '*'
    raise AssertionError(style)


def path_ok(d, parts, ctx):
    """Is this (style, value) list inside the generator's domain for dialect d / context ctx?"""
    if not parts:
        return False
    for i, (s, v) in enumerate(parts):
        if s == 'dq' and d not in reflex.DQ_IDENT:
            return False
        if s == 'int' and (d not in reflex.INT_PART or i == 0):
            return False
        if s == 'star' and (i == 0 or i != len(parts) - 1 or ctx != 'target' or d == 'sqlite'):
            return False
        if s == 'int' and i + 1 < len(parts) and parts[i + 1][0] in ('w', 'int') and parts[i + 1][1][:1].isdigit():
            return False                     # `1.1a` would be a FLOAT token
        if s == 'bq' and (not v or '`' in v):
            return False
        if s == 'w' and (reflex.read_word(v, 0) or (None, -1))[1] != len(v):
            return False
    if len(parts) == 1 and parts[0][0] == 'dq' and ctx not in ('from', 'insert'):
        return False                         # a lone "..." is a string constant in expression position
    if ctx in FN_CTX:
        # function names: plain words that are no keywords, and back-quoted names (what else is a call is the grammar's business)
        if any(s not in ('w', 'bq') or (s == 'w' and (reflex.keyword_of(v, d) or v[:1].isdigit() or '$' in v)) for s, v in parts):
            return False
    return True


def _path_features(d, parts, ref, obs_parts):
    """Tags from the parts the oracle rejects (all parts when the part count differs)."""
    if obs_parts is None:
        suspects = list(range(len(parts)))
        f = ['diff:not-an-identifier']
    elif len(obs_parts) != len(parts):
        suspects = [i for i, (s, _) in enumerate(parts) if s == 'dq'] or list(range(len(parts)))
        f = ['diff:more-parts' if len(obs_parts) > len(parts) else 'diff:fewer-parts']
    else:
        suspects = [i for i, (rp, o) in enumerate(zip(ref, obs_parts)) if not reflex.part_admits(rp, o)]
        f = ['diff:part-text']
    for i in suspects:
        s, v = parts[i]
        if s == 'dq':
            f.append('dq:first' if i == 0 else 'dq:later')
            content = ''.join(v)
            if i == 0 and '.' in content:
                f.append('dq:dot')
            if i == 0 and '`' in content:
                f.append('dq:backquote')
            if obs_parts is not None and len(obs_parts) == len(parts):
                f.extend(_str_diagnosis(ref[i][1], '"', obs_parts[i]))
        elif s == 'bq':
            f.append('bq')
        elif s == 'int':
            f.append('int-part')
        elif s == 'star':
            f.append('star')
        elif s == 'w':
            f.append('kw-word' if reflex.keyword_of(v, d) else 'word')
            if _kw_then_dollar(v, d):
                f.append('word:keyword-then-dollar')
    return f


def _kw_then_dollar(v, d):
    """The word starts with a keyword spelling directly followed by `$` (status$, view$orders)."""
    return any(v[i] == '$' and reflex.keyword_of(v[:i], d) for i in range(1, len(v)))


def judge_dpath(case, col):
    d, ctx = case['d'], case['ctx']
    parts = [(s, v) for s, v in case['parts']]
    seps = case['seps']
    if not path_ok(d, parts, ctx):
        col.excluded('path outside the generated domain')
        return []
    text = _part_text(*parts[0])
    for i in range(1, len(parts)):
        text += seps[(i - 1) % len(seps)] + _part_text(*parts[i])
    ref = reflex.read_whole_path(text, d)
    if ref is None or len(ref) != len(parts):
        raise AssertionError(f'generator/reader disagreement on path {text!r} ({d}): {ref}')
    for (s, v), rp in zip(parts, ref):
        want = {'w': 'word', 'bq': 'bq', 'dq': 'dq', 'int': 'int', 'star': 'star'}[s]
        if rp[0] != want or (s in ('w', 'bq', 'int') and rp[1] != v):
            raise AssertionError(f'generator/reader disagreement on path {text!r} ({d}): {ref}')
    tmpl, get = PATH_CTX[ctx] if ctx in PATH_CTX else FN_CTX[ctx]
    sql = tmpl.format(x=text)
    cfg = {'dialect': d}
    st_, r = _parse(sql, d)
    if st_ == 'crash':
        col.excluded('internal-error (C02)')
        return []
    styles = sorted({s for s, _ in parts})
    classes = ['decode', 'decode:path', 'dialect:' + d, 'pctx:' + ctx, 'parts:%d' % min(len(parts), 3)] + \
              ['part:' + s for s in styles]
    out = []
    denoted = [reflex.part_value(p) for p in ref]
    if st_ == 'rejected':
        classes.append('rejected')
    else:
        classes.append('accepted')
        if any(s == 'w' and reflex.keyword_of(v, d) for s, v in parts):
            classes.append('part:keyword-word')
        if any(s == 'w' and v[:1].isdigit() for s, v in parts):
            classes.append('part:digit-first')
        if any(s != 'w' and s != 'star' and '.' in ''.join(v) for s, v in parts):
            classes.append('part:quoted-dot')
        if any(any(ch.isupper() for ch in ''.join(v)) for s, v in parts if s != 'star'):
            classes.append('part:uppercase')
        if any(sp != '.' for sp in seps[:max(0, len(parts) - 1)]):
            classes.append('blank-around-dot')
        if any(s == 'w' and _kw_then_dollar(v, d) for s, v in parts):
            classes.append('part:kw-then-dollar')
        if any(s == 'int' and v[0] == '0' and len(v) > 1 for s, v in parts):
            classes.append('part:int-leading-zero')
        node = get(r)
        obs = getattr(node, 'parts', None) if _cls(node) == 'Identifier' else None
        if ctx in FN_CTX:
            classes.append('function-name')
            if _cls(node) == 'Function':
                # the name of the call: [namespace,] name; the letter case of the function's own name is left open
                ns = getattr(node, 'namespace', None)
                obs = ([ns] if ns is not None else []) + [node.op]
                if len(obs) == len(ref) and isinstance(obs[-1], str) and isinstance(reflex.part_value(ref[-1]), str) \
                        and ' '.join(obs[-1].lower().split()) == ' '.join(reflex.part_value(ref[-1]).lower().split()):
                    obs = obs[:-1] + [reflex.part_value(ref[-1])]
        good = obs is not None and len(obs) == len(ref) and all(reflex.part_admits(p, o) for p, o in zip(ref, obs))
        if obs is None and len(parts) == 1 and parts[0][0] == 'w' and reflex.keyword_of(parts[0][1], d):
            classes.append('keyword-read-as-keyword')       # e.g. f(LAST): the grammar's business, not a name
        elif not good:
            shown = _parts_repr(obs) if obs is not None else _cls(node)
            out.append(findings.record('decode-path', 'Identifier.parts', _path_features(d, parts, ref, obs), cfg,
                                       f'path {_short(text)} denotes parts {denoted}; tree holds {shown}', sql))
        elif any(rp[0] == 'int' and o != rp[1] for rp, o in zip(ref, obs)):
            out.append(findings.record('decode-path', 'Identifier.parts', ['diff:part-text', 'int-part', 'int:leading-zeros-lost'],
                                       cfg, f'path {_short(text)} denotes parts {denoted}; tree holds {_parts_repr(obs)}', sql))
    nontrivial = st_ == 'ok' and (len(parts) > 1 or any(s != 'w' for s, _ in parts) or
                                  any(v[:1].isdigit() or reflex.keyword_of(v, d) for s, v in parts if s == 'w'))
    col.case(('dpath', d, sql), nontrivial, classes, {'kind': 'decode-path', 'dialect': d, 'sql': sql, 'denotes': denoted})
    return out


# ------------------------------------------------------------------------------------------------ decode: numbers

def judge_dnum(case, col):
    d, t, neg, ctx = case['d'], case['t'], case['neg'], case['ctx']
    text = ['', '-', '- '][neg] + t
    ref = reflex.read_whole_number(text, d)
    if ref is None:
        raise AssertionError(f'generator/reader disagreement on number {text!r} ({d})')
    kind, exact, _ = ref
    tmpl, get = LIT_CTX[ctx]
    sql = tmpl.format(x=text)
    cfg = {'dialect': d}
    st_, r = _parse(sql, d)
    if st_ == 'crash':
        col.excluded('internal-error (C02)')
        return []
    digits = t.replace('.', '')
    classes = ['decode', 'decode:num', 'dialect:' + d, 'num:' + kind, 'ctx:' + ctx]
    if kind == 'float' and _beyond_double(exact):
        classes.append('num:beyond-double')           # counted whether accepted or not: a reader may refuse it
    out = []
    if st_ == 'rejected':
        classes.append('rejected')
    else:
        classes.append('accepted')
        if neg:
            classes.append('num:negative')
        if len(digits.strip('0')) >= 16:
            classes.append('num:>=16-digits')
        if kind == 'int' and abs(exact) > 2 ** 53:
            classes.append('num:int>2^53')
        if t[0] == '0' and len(t) > 1 and t[1] != '.':
            classes.append('num:leading-zero')
        node = get(r)
        v = _number_of(node)
        feats = ['num:' + kind] + (['neg'] if neg else [])
        if kind == 'float' and _beyond_double(exact):
            feats.append('num:beyond-double')
        if v is None:
            out.append(findings.record('decode-shape', 'Constant', feats + ['node:' + _cls(node)], cfg,
                                       f'number {text} read as {_cls(node)} {_short(getattr(node, "value", None))}', sql))
        elif not _same_number(v, kind, exact):
            den = exact if kind == 'int' else ('a decimal beyond the double range' if _beyond_double(exact) else repr(float(exact)))
            out.append(findings.record('decode-value', 'Constant.value', feats, cfg,
                                       f'number {_short(text, 60)} denotes {_short(den, 60)}; tree holds {v!r}', sql))
    nontrivial = st_ == 'ok' and (neg or len(digits.strip('0')) >= 16 or (t[0] == '0' and len(t) > 1) or
                                  (kind == 'float' and t.endswith('0')) or
                                  (kind == 'float' and (_beyond_double(exact) or 'e' in repr(float(exact)))))
    col.case(('dnum', d, sql), bool(nontrivial), classes, {'kind': 'decode-number', 'dialect': d, 'sql': sql})
    return out


# ------------------------------------------------------------------------------------------------ decode: doubled delimiters

DBL_UNITS = {"'": ['a', "''", ' ', '"', '.', 'B'], '"': ['a', '""', ' ', "'", '.', 'B'], '`': ['a', '``', ' ', '.', "'", 'B']}
_QTAG = {"'": 'q:sq', '"': 'q:dq', '`': 'q:bq'}


def _dbl_value(units, q):
    """Reference reading of a text q + units + q whose units are single characters other than q and backslash, or the
    doubled delimiter qq: qq denotes one q, every other unit itself.  -> value | None (not in that shape)."""
    out = []
    for u in units:
        if u == q + q:
            out.append(q)
        elif len(u) == 1 and u != q and u != '\\':
            out.append(u)
        else:
            return None
    return ''.join(out)


def dbl_ctxs(d, q):
    """Contexts of a doubled-delimiter text: literal positions for '...' and "...", name positions (p:...) for `...`
    and, where the grammar takes "..." as a name, for "..." in FROM / INSERT INTO."""
    if q == '`':
        return ['p:' + c for c in sorted(PATH_CTX)]
    cs = sorted(LIT_CTX)
    if q == '"' and d in reflex.DQ_IDENT:
        cs += ['p:from', 'p:insert']
    return cs


def judge_ddbl(case, col):
    d, q, units, ctx = case['d'], case['q'], case['u'], case['ctx']
    value = _dbl_value(units, q)
    if value is None or q + q not in units or ctx not in dbl_ctxs(d, q):
        raise AssertionError(f'ddbl case outside the generated domain: {case!r}')
    if d in reflex.ESCAPING and q == "'":
        col.excluded("doubled quote in a mindsdb '...' literal: judged by decode-string")
        return []
    lit = q + ''.join(units) + q
    name_pos = ctx.startswith('p:')
    tmpl, get = PATH_CTX[ctx[2:]] if name_pos else LIT_CTX[ctx]
    sql = tmpl.format(x=lit)
    cfg = {'dialect': d}
    st_, r = _parse(sql, d)
    if st_ == 'crash':
        col.excluded('internal-error (C02)')
        return []
    classes = ['decode', 'decode:dbl', 'dialect:' + d, 'dbl:' + _QTAG[q][2:], 'dctx:' + ctx]
    out = []
    if st_ == 'rejected':
        classes.append('rejected')
    else:
        classes += ['accepted', 'dbl-accepted:' + _QTAG[q][2:]]
        feats = ['doubled-delimiter', _QTAG[q]]
        try:
            node = get(r)
        except Exception:
            node = None
        if name_pos:
            obs = node.parts[0] if _cls(node) == 'Identifier' and len(node.parts) == 1 and isinstance(node.parts[0], str) else None
        else:
            obs = node.value if _cls(node) == 'Constant' and isinstance(node.value, str) else None
        extra = getattr(node, 'alias', None) is not None or \
            (ctx in ('select', 'select-from', 'p:target') and len(getattr(r, 'targets', None) or []) != 1)
        if obs != value or extra:
            head = ''.join(units[:units.index(q + q)])
            if obs is None:
                feats.append('diff:other-node')
            elif obs == head:
                feats.append('diff:cut-at-doubled-delimiter')
            elif obs == ''.join(units):
                feats.append('diff:doubled-kept')
            elif obs == value:
                feats.append('diff:value-then-alias')
            else:
                feats.append('diff:other')
            shown = _cls(node) if obs is None else _short(obs)
            al = getattr(node, 'alias', None)
            out.append(findings.record('decode-path' if name_pos else 'decode-value',
                                       'Identifier.parts' if name_pos else 'Constant.value', feats, cfg,
                                       f'{"name" if name_pos else "literal"} {_short(lit)} denotes {_short(value)}; tree holds '
                                       f'{shown}{" with alias " + str(getattr(al, "parts", al)) if al is not None else ""}', sql))
    col.case(('ddbl', d, sql), st_ == 'ok', classes, {'kind': 'decode-doubled-delimiter', 'dialect': d, 'sql': sql,
                                                     'denotes': value})
    return out


# ------------------------------------------------------------------------------------------------ decode: variables

def judge_dvar(case, col):
    d, sysv, style, name, ctx = case['d'], case['sys'], case['style'], case['name'], case['ctx']
    text = ('@@' if sysv else '@') + (name if style == 'p' else style + name + style)
    ref = reflex.read_whole_variable(text, d)
    if ref is None or ref[0] != name or ref[1] != sysv:
        raise AssertionError(f'generator/reader disagreement on variable {text!r} ({d}): {ref}')
    tmpl, get = VAR_CTX[ctx]
    sql = tmpl.format(x=text)
    cfg = {'dialect': d}
    st_, r = _parse(sql, d)
    if st_ == 'crash':
        col.excluded('internal-error (C02)')
        return []
    classes = ['decode', 'decode:var', 'dialect:' + d, 'var:' + ('plain' if style == 'p' else 'quoted'), 'ctx:' + ctx]
    out = []
    if st_ == 'rejected':
        classes.append('rejected')
    else:
        classes.append('accepted')
        if sysv:
            classes.append('var:system')
        node = get(r)
        feats = ['var:' + ('plain' if style == 'p' else {"'": 'sq', '"': 'dq', '`': 'bq'}[style])] + (['system'] if sysv else [])
        if _cls(node) != 'Variable':
            out.append(findings.record('decode-shape', 'Variable', feats + ['node:' + _cls(node)], cfg,
                                       f'variable {_short(text)} read as {_cls(node)}', sql))
        elif node.value != name or bool(node.is_system_var) != sysv:
            out.append(findings.record('decode-value', 'Variable.value', feats, cfg,
                                       f'variable {_short(text)} denotes {name!r} (system={sysv}); tree holds '
                                       f'{_short(node.value)} (system={node.is_system_var})', sql))
    nontrivial = st_ == 'ok' and (style != 'p' or '.' in name or sysv)
    col.case(('dvar', d, sql), nontrivial, classes, {'kind': 'decode-variable', 'dialect': d, 'sql': sql, 'denotes': name})
    return out


# ------------------------------------------------------------------------------------------------ encode: strings

def _value_features(v):
    """v:edge-quote = the value starts or ends with a single quote; v:adjacent-quotes = it contains two single quotes
    in a row; v:backslash-unsafe = it has a backslash that is
    followed by a quote, a double quote, a backslash or nothing (where an unescaped backslash changes the reading)."""
    f = []
    if v[:1] == "'" or v[-1:] == "'":
        f.append('v:edge-quote')
    if "''" in v:
        f.append('v:adjacent-quotes')
    for i, c in enumerate(v):
        if c == '\\' and (i + 1 == len(v) or v[i + 1] in '\'"\\'):
            f.append('v:backslash-unsafe')
            break
    return f


def _print(node, cfg, what, feats):
    try:
        return node.to_string(), None
    except RecursionError:
        raise
    except Exception as e:
        return None, findings.record('encode-raises', site_of(e), feats, cfg, f'{what}: {type(e).__name__}: {e}', what)


def judge_estr(case, col):
    from mindsdb_sql.parser.ast import Constant
    d, v = case['d'], case['v']
    cfg = {'dialect': d}
    if d not in reflex.ESCAPING and "'" in v:
        col.excluded("encode: single quote has no single-quoted spelling in the mysql/sqlite token shapes")
        return []
    feats = _value_features(v)
    text, rec = _print(Constant(v), cfg, f'Constant({v!r})', feats)
    classes = ['encode', 'encode:str', 'dialect:' + d]
    out = []
    if rec:
        out.append(rec)
    else:
        sql = 'SELECT ' + text
        den = reflex.read_whole_quoted(text, d)
        if den is None:
            out.append(findings.record('encode-ref', 'Constant.get_string', feats + ['ref:not-one-literal'], cfg,
                                       f'value {_short(v)} prints as {_short(text)}: not one complete literal', sql))
        elif not den.admits(v):
            out.append(findings.record('encode-ref', 'Constant.get_string', feats + ['ref:other-value'], cfg,
                                       f'value {_short(v)} prints as {_short(text)} which denotes {_short(den.canonical)}', sql))
        st_, r = _parse(sql, d)
        if st_ == 'crash':
            out.append(findings.record('encode-lib', 'Constant.get_string', feats + ['lib:crash:' + site_of(r)], cfg,
                                       f'value {_short(v)} prints as {_short(text)}; parser: {type(r).__name__}', sql))
        elif st_ == 'rejected':
            out.append(findings.record('encode-lib', 'Constant.get_string', feats + ['lib:rejected'], cfg,
                                       f'value {_short(v)} prints as {_short(text)}; rejected by the parser', sql))
        else:
            node = r.targets[0] if getattr(r, 'targets', None) else None
            if _cls(node) != 'Constant' or node.value != v or getattr(r, 'from_table', None) is not None \
                    or len(r.targets) != 1 or node.alias is not None:
                got = _short(node.value) if _cls(node) == 'Constant' else _cls(node)
                out.append(findings.record('encode-lib', 'Constant.get_string', feats + ['lib:other-value'], cfg,
                                           f'value {_short(v)} prints as {_short(text)}; parser reads {got}', sql))
        if v == '':
            classes.append('empty-string')
        for t in feats:
            classes.append(t)
        for c, t in (("'", 'v:quote'), ('"', 'v:dquote'), ('\\', 'v:backslash'), ('\n', 'v:newline')):
            if c in v:
                classes.append(t)
        if any(ord(c) > 127 for c in v):
            classes.append('v:non-ascii')
    nontrivial = rec is None and (v == '' or _has_special(v))
    col.case(('estr', d, v), nontrivial, classes, {'kind': 'encode-string', 'dialect': d, 'value': v, 'printed': text})
    return out


# ------------------------------------------------------------------------------------------------ encode: paths

_DBL_PART = re.compile(r'`((?:[^`]|``)+)`|([A-Za-z_$0-9]+)|(\*)')


def _read_path_dbl(text):
    """Reference reader for a printed path whose quoted parts may hold the doubled back-quote: part(.part)*, part =
    `...` with `` for one back-quote | plain word | *.  -> parts in the shape of reflex.read_whole_path | None."""
    pos, parts = 0, []
    while True:
        m = _DBL_PART.match(text, pos)
        if not m:
            return None
        if m.group(1) is not None:
            parts.append(('bq', m.group(1).replace('``', '`'), m.group(0)))
        elif m.group(2) is not None:
            if m.group(2).isdigit():
                return None
            parts.append(('word', m.group(2), m.group(0)))
        else:
            parts.append(('star', '*', '*'))
        pos = m.end()
        if pos == len(text):
            return parts
        if text[pos] != '.' or parts[-1][0] == 'star':
            return None
        pos += 1


def judge_epath(case, col):
    from mindsdb_sql.parser.ast import Identifier, Star
    d, ctx = case['d'], case['ctx']
    vals = case['parts']
    cfg = {'dialect': d}
    if not vals:
        col.excluded('encode: empty part list')
        return []
    for i, p in enumerate(vals):
        if p is None:
            if i == 0 or i != len(vals) - 1 or ctx != 'target' or d == 'sqlite':
                col.excluded('encode: star outside the grammar position')
                return []
        elif p == '':
            col.excluded('encode: identifier part with no spelling (empty)')
            return []
    parts = [Star() if p is None else p for p in vals]
    feats = []
    for p in vals:
        if p is None:
            feats.append('star')
            continue
        kw = reflex.keyword_of(p, d)
        if kw:
            feats.append('kw:' + kw)
        elif p.upper() in ('FIRST', 'BY', 'NULLS', 'ORDER', 'GROUP', 'PARTITION'):
            feats.append('half-keyword')
        if '.' in p:
            feats.append('p:dot')
        if p[:1].isdigit():
            feats.append('p:digit-first')
        if any(c in ' \t\r\n' for c in p):
            feats.append('p:blank')
        if any(ord(c) > 127 for c in p):
            feats.append('p:non-ascii')
        if any(c in '\'"\\' for c in p):
            feats.append('p:quote-or-backslash')
    ptags = sorted(set(feats))
    feats = [t for t in ptags if not t.startswith('p:')] or ptags
    bq = ['p:backquote'] if any(p is not None and '`' in p for p in vals) else []   # spelled with the doubled back-quote
    feats = bq or feats                      # the mechanism that decides: no escape form for the back-quote
    text, rec = _print(Identifier(parts=list(parts)), cfg, f'Identifier(parts={vals!r})', feats)
    classes = ['encode', 'encode:path', 'dialect:' + d, 'ectx:' + ctx, 'parts:%d' % min(len(vals), 3)]
    out = []
    if rec:
        out.append(rec)
    else:
        tmpl, get = PATH_CTX[ctx]
        sql = tmpl.format(x=text)
        ref = _read_path_dbl(text) if bq else reflex.read_whole_path(text, d)
        want = ['*' if p is None else p for p in vals]
        # cause-level tags: keyword-shaped words the printer left unquoted (read off the printed text)
        ukw = sorted({'unquoted-kw:' + reflex.keyword_of(rp[1], d) for rp in (ref or ())
                      if rp[0] == 'word' and reflex.keyword_of(rp[1], d)})
        feats = bq or ukw or feats
        if ref is None:
            out.append(findings.record('encode-ref', 'Identifier.parts_to_str', feats + ['ref:not-one-path'], cfg,
                                       f'parts {want} print as {_short(text)}: not one identifier path', sql))
        else:
            okp = len(ref) == len(vals) and all(
                (rp[0] == 'star') if p is None else (rp[0] != 'star' and reflex.part_value(rp) == p and rp[0] != 'int')
                for rp, p in zip(ref, vals))
            if not okp:
                out.append(findings.record('encode-ref', 'Identifier.parts_to_str', feats + ['ref:other-parts'], cfg,
                                           f'parts {want} print as {_short(text)} which denotes '
                                           f'{[reflex.part_value(x) for x in ref]}', sql))
        st_, r = _parse(sql, d)
        if st_ == 'crash':
            out.append(findings.record('encode-lib', 'Identifier.parts_to_str', feats + ['lib:crash:' + site_of(r)], cfg,
                                       f'parts {want} print as {_short(text)}; parser: {type(r).__name__}', sql))
        elif st_ == 'rejected':
            out.append(findings.record('encode-lib', 'Identifier.parts_to_str', feats + ['lib:rejected'], cfg,
                                       f'parts {want} print as {_short(text)}; rejected by the parser', sql))
        else:
            try:
                node = get(r)
            except Exception:
                node = None
            obs = getattr(node, 'parts', None) if _cls(node) == 'Identifier' else None
            same = obs is not None and len(obs) == len(vals) and getattr(node, 'alias', None) is None and all(
                (_cls(o) == 'Star') if p is None else (isinstance(o, str) and o == p) for o, p in zip(obs, vals))
            if not same:
                got = _parts_repr(obs) if obs is not None else _cls(node)
                out.append(findings.record('encode-lib', 'Identifier.parts_to_str', feats + ['lib:other-parts'], cfg,
                                           f'parts {want} print as {_short(text)}; parser reads {got}', sql))
        for t in ptags + bq:
            classes.append('epart:' + (t.split(':')[0] if t.startswith('kw:') else t))
    nontrivial = rec is None and (len(vals) > 1 or bool(ptags) or _has_special(vals[0] or '*'))
    col.case(('epath', d, ctx, vals), nontrivial, classes, {'kind': 'encode-path', 'dialect': d, 'parts': vals, 'printed': text})
    return out


# ------------------------------------------------------------------------------------------------ encode: numbers

def judge_enum(case, col):
    from mindsdb_sql.parser.ast import Constant
    d, v = case['d'], case['v']
    cfg = {'dialect': d}
    if isinstance(v, bool) or not isinstance(v, (int, float)):
        raise AssertionError('enum case with a non-number')
    if isinstance(v, float) and (math.isnan(v) or math.isinf(v)):
        col.excluded('encode: inf/nan are not decimals')
        return []
    kind = 'int' if isinstance(v, int) else 'float'
    feats = ['num:' + kind]
    rp = repr(v)
    if kind == 'float' and 'e' in rp:
        feats.append('repr:exponent')
    if v < 0 or (kind == 'float' and math.copysign(1.0, v) < 0):
        feats.append('neg')
    text, rec = _print(Constant(v), cfg, f'Constant({v!r})', feats)
    classes = ['encode', 'encode:num', 'dialect:' + d] + ['e' + f for f in feats]
    out = []
    if rec:
        out.append(rec)
    else:
        sql = 'SELECT ' + text
        ref = reflex.read_whole_number(text, d)
        if ref is None:
            out.append(findings.record('encode-ref', 'Constant.get_string', feats + ['ref:not-one-number'], cfg,
                                       f'number {v!r} prints as {_short(text)}: not one number token', sql))
        else:
            want = ref[1]
            good = (v == want) if ref[0] == 'int' else (float(want) == v)
            if not good:
                out.append(findings.record('encode-ref', 'Constant.get_string', feats + ['ref:other-value'], cfg,
                                           f'number {v!r} prints as {_short(text)}', sql))
        st_, r = _parse(sql, d)
        if st_ == 'crash':
            out.append(findings.record('encode-lib', 'Constant.get_string', feats + ['lib:crash:' + site_of(r)], cfg,
                                       f'number {v!r} prints as {_short(text)}; parser: {type(r).__name__}', sql))
        elif st_ == 'rejected':
            out.append(findings.record('encode-lib', 'Constant.get_string', feats + ['lib:rejected'], cfg,
                                       f'number {v!r} prints as {_short(text)}; rejected by the parser', sql))
        else:
            node = r.targets[0] if len(getattr(r, 'targets', None) or []) == 1 else None
            got = _number_of(node) if node is not None else None
            if got is None or got != v or getattr(r, 'from_table', None) is not None or node.alias is not None:
                shown = got if got is not None else _cls(node)
                out.append(findings.record('encode-lib', 'Constant.get_string', feats + ['lib:other-value'], cfg,
                                           f'number {v!r} prints as {_short(text)}; parser reads {shown!r}', sql))
    digits = rp.lstrip('-').replace('.', '').split('e')[0].strip('0')
    nontrivial = rec is None and (v < 0 or len(digits) >= 16 or 'e' in rp or (kind == 'int' and abs(v) > 2 ** 53))
    col.case(('enum', d, rp), bool(nontrivial), classes, {'kind': 'encode-number', 'dialect': d, 'value': rp, 'printed': text})
    return out


# ------------------------------------------------------------------------------------------------ encode: Decimal

def judge_edec(case, col):
    from mindsdb_sql.parser.ast import Constant
    d, v = case['d'], Decimal(case['v'])
    cfg = {'dialect': d}
    if not v.is_finite():
        col.excluded('encode: inf/nan are not decimals')
        return []
    exact = Fraction(v)
    feats = ['num:decimal']
    if 'E' in str(v):
        feats.append('repr:exponent')
    if v.is_signed():
        feats.append('neg')
    text, rec = _print(Constant(v), cfg, f'Constant({v!r})', feats)
    classes = ['encode', 'encode:dec', 'dialect:' + d] + ['e' + f for f in feats]
    out = []
    if rec:
        out.append(rec)
    else:
        sql = 'SELECT ' + text
        ref = reflex.read_whole_number(text, d)
        if ref is None:
            out.append(findings.record('encode-ref', 'Constant.get_string', feats + ['ref:not-one-number'], cfg,
                                       f'number {v!r} prints as {_short(text)}: not one number token', sql))
        elif ref[1] != exact:
            out.append(findings.record('encode-ref', 'Constant.get_string', feats + ['ref:other-value'], cfg,
                                       f'number {v!r} prints as {_short(text)}', sql))
        st_, r = _parse(sql, d)
        if st_ == 'crash':
            out.append(findings.record('encode-lib', 'Constant.get_string', feats + ['lib:crash:' + site_of(r)], cfg,
                                       f'number {v!r} prints as {_short(text)}; parser: {type(r).__name__}', sql))
        elif st_ == 'rejected':
            if not (ref is not None and ref[0] == 'float' and _beyond_double(ref[1])):   # the reader may refuse what no double holds
                out.append(findings.record('encode-lib', 'Constant.get_string', feats + ['lib:rejected'], cfg,
                                           f'number {v!r} prints as {_short(text)}; rejected by the parser', sql))
        else:
            node = r.targets[0] if len(getattr(r, 'targets', None) or []) == 1 else None
            got = _number_of(node) if node is not None else None
            kind = ref[0] if ref is not None else ('int' if exact.denominator == 1 else 'float')
            if got is None or not _same_number(got, kind, exact) or getattr(r, 'from_table', None) is not None \
                    or node.alias is not None:
                shown = got if got is not None else _cls(node)
                out.append(findings.record('encode-lib', 'Constant.get_string', feats + ['lib:other-value'], cfg,
                                           f'number {v!r} prints as {_short(text)}; parser reads {shown!r}', sql))
    col.case(('edec', d, str(v)), rec is None, classes, {'kind': 'encode-decimal', 'dialect': d, 'value': str(v), 'printed': text})
    return out


# ------------------------------------------------------------------------------------------------ encode: variables

def judge_evar(case, col):
    from mindsdb_sql.parser.ast import Variable
    d, v, sysv = case['d'], case['v'], case['sys']
    cfg = {'dialect': d}
    if d not in reflex.HAS_VARIABLES:
        col.excluded('encode: dialect has no variables')
        return []
    if reflex.spell_variable(v, sysv) is None:
        col.excluded('encode: variable name with no spelling in the token shape')
        return []
    plain = reflex.spell_variable(v, sysv)[1 + int(sysv):] == v
    feats = ['name:plain' if plain else 'name:needs-quotes'] + (['system'] if sysv else [])
    text, rec = _print(Variable(v, is_system_var=sysv), cfg, f'Variable({v!r})', feats)
    classes = ['encode', 'encode:var', 'dialect:' + d] + ['evar:' + f for f in feats]
    out = []
    if rec:
        out.append(rec)
    else:
        sql = 'SELECT ' + text
        ref = reflex.read_whole_variable(text, d)
        if ref is None:
            out.append(findings.record('encode-ref', 'Variable.get_string', feats + ['ref:not-one-variable'], cfg,
                                       f'variable {_short(v)} prints as {_short(text)}: not one variable token', sql))
        elif ref[0] != v or ref[1] != sysv:
            out.append(findings.record('encode-ref', 'Variable.get_string', feats + ['ref:other-value'], cfg,
                                       f'variable {_short(v)} prints as {_short(text)} which denotes {_short(ref[0])}', sql))
        st_, r = _parse(sql, d)
        if st_ == 'crash':
            out.append(findings.record('encode-lib', 'Variable.get_string', feats + ['lib:crash:' + site_of(r)], cfg,
                                       f'variable {_short(v)} prints as {_short(text)}; parser: {type(r).__name__}', sql))
        elif st_ == 'rejected':
            out.append(findings.record('encode-lib', 'Variable.get_string', feats + ['lib:rejected'], cfg,
                                       f'variable {_short(v)} prints as {_short(text)}; rejected by the parser', sql))
        else:
            node = r.targets[0] if len(getattr(r, 'targets', None) or []) == 1 else None
            if _cls(node) != 'Variable' or node.value != v or bool(node.is_system_var) != sysv or node.alias is not None \
                    or getattr(r, 'from_table', None) is not None:
                got = (_short(node.value) if _cls(node) == 'Variable' else _cls(node)) + \
                      (f' AS {node.alias.parts}' if getattr(node, 'alias', None) is not None else '')
                out.append(findings.record('encode-lib', 'Variable.get_string', feats + ['lib:other-value'], cfg,
                                           f'variable {_short(v)} prints as {_short(text)}; parser reads {got}', sql))
    nontrivial = rec is None and (not plain or '.' in v or sysv)
    col.case(('evar', d, sysv, v), nontrivial, classes, {'kind': 'encode-variable', 'dialect': d, 'value': v, 'printed': text})
    return out


JUDGES = {'dstr': judge_dstr, 'dpath': judge_dpath, 'dnum': judge_dnum, 'dvar': judge_dvar, 'ddbl': judge_ddbl,
          'estr': judge_estr, 'epath': judge_epath, 'enum': judge_enum, 'evar': judge_evar, 'edec': judge_edec}


def judge(case, col):
    return JUDGES[case['k']](case, col)


# ------------------------------------------------------------------------------------------------ exhaustive spaces

WORDS = ['a', 'B', 'Tbl', 'col1', '1a', '$x', '_', '9_9', 'aB_c', '1e5']
BQ_POOL = ['a b', 'a.b', 'select', 'x-y', "it's", 'a"b', 'a\\b', ' a ', '1', '*', 'ünï', 'a\nb', '.', 'A.B.c',
           'primary_key', 'group by', '@v', '--x', "''", 'Ab']
DQI_POOL = [['a'], ['A', 'b'], ['a', ' ', 'b'], ['a', '.', 'b'], ['`', 'a', '.', 'b', '`'], ['a', '\\"', 'b'], ['a', "'"],
            ['\\\\'], ['s', 'e', 'l', 'e', 'c', 't'], ['1'], ['a', '.', '.', 'b'], ['.', 'a'], ['ü']]
INT_POOL = ['0', '1', '12', '007']
EPART_POOL = ['a', 'Ab', 'a b', 'a.b', '1a', '1', '$x', 'x-y', "it's", 'a"b', 'a\\b', 'ünï', 'a\nb', ' ', '.', '*',
              'select', 'Status', 'primary_key', 'PRIMARY KEY', 'group by', 'order', 'first', 'persist_only', 'ml_engine',
              'knowledge_base', 'search_path', 'latest', 'model', 'true', 'null', 'if', 'exists', '@v', '', 'a`b', '1e5',
              '_', 'x1_', 'nulls', 'by', '`', '``', 'a`.`b', 'a` `b', '`a`']
KW_SUFFIX = ['$', '$x']
DEC_GRID = ['0', '1', '-1', '1.50', '0.1', '-0.1', '1E-7', '-1E-7', '1E+2', '1.5E+30', '0E-10', '-0.000', '1E-30',
            '123456789.123456789123456789', '12345678901234567890.5', '0.0000001', '1234567E-10', '9007199254740993',
            '1E+400']


def _products(units, maxlen):
    for n in range(maxlen + 1):
        for combo in itertools.product(units, repeat=n):
            yield list(combo)


def exhaustive(tier):
    """Deterministic enumeration of the bounded parts.  Yields (part name, case)."""
    L = EXH_LEN[tier]
    # E1 literal texts over the hostile unit alphabets
    for d in DIALECTS:
        for q in ("'", '"'):
            esc = d in reflex.ESCAPING
            maxlen = L['sq' if q == "'" else 'dq'] if esc else L['raw']
            for u in _products(units_for(d, q), maxlen):
                yield 'E1', {'k': 'dstr', 'd': d, 'q': q, 'u': u, 'ctx': 'select'}
    # E2 values over the hostile character alphabet
    for d in DIALECTS:
        for u in _products(ENC_ALPHA, L['enc']):
            yield 'E2', {'k': 'estr', 'd': d, 'v': ''.join(u)}
    # E3 quoted identifier contents
    for u in _products(DQI_UNITS, L['dqi']):
        if u:
            yield 'E3', {'k': 'dpath', 'd': 'mindsdb', 'parts': [['dq', u]], 'seps': ['.'], 'ctx': 'from'}
            yield 'E3', {'k': 'dpath', 'd': 'mindsdb', 'parts': [['w', 'a'], ['dq', u]], 'seps': ['.'], 'ctx': 'target'}
    for d in DIALECTS:
        for u in _products(BQ_CHARS, L['bq']):
            if u:
                yield 'E3', {'k': 'dpath', 'd': d, 'parts': [['bq', ''.join(u)]], 'seps': ['.'], 'ctx': 'target'}
    # E4 paths over the part pool
    ctxs = sorted(PATH_CTX)
    # E4f function-name paths: 1..3 parts over plain and back-quoted names x the five call forms
    fn_pool = [['w', 'f'], ['w', 'Ns'], ['w', 'my_fn'], ['w', 'count'], ['w', 'b2'], ['bq', 'a b'], ['bq', 'x.y'], ['bq', 'Fn']]
    for d in DIALECTS:
        for n in (1, 2, 3):
            for ci, combo in enumerate(itertools.product(fn_pool, repeat=n)):
                if n == 3 and ci % 4:
                    continue
                for fc in sorted(FN_CTX):
                    parts = [list(p) for p in combo]
                    if path_ok(d, [tuple(p) for p in parts], fc):
                        yield 'E4', {'k': 'dpath', 'd': d, 'parts': parts, 'seps': [SEPS[ci % 2]], 'ctx': fc}
    for d in DIALECTS:
        small = [['w', w] for w in WORDS] + [['bq', b] for b in BQ_POOL]
        if d in reflex.DQ_IDENT:
            small += [['dq', u] for u in DQI_POOL]
        if d in reflex.INT_PART:
            small += [['int', x] for x in INT_POOL]
        small.append(['star', '*'])
        full = small + [['w', w] for w in _KWID[d]]
        i = 0
        for n in range(1, L['path'] + 1):
            for combo in itertools.product(full if n <= 2 else small, repeat=n):
                i += 1
                ctx = ctxs[i % len(ctxs)]
                if any(p[0] == 'star' for p in combo):
                    ctx = 'target'
                if n == 1 and combo[0][0] == 'dq':
                    ctx = 'from'
                parts = [list(p) for p in combo]
                if not path_ok(d, [tuple(p) for p in parts], ctx):
                    continue
                yield 'E4', {'k': 'dpath', 'd': d, 'parts': parts, 'seps': [SEPS[i % 2]], 'ctx': ctx}
    # E5 identifier part values (incl. every keyword word of the lexers)
    for d in DIALECTS:
        pool = list(EPART_POOL) + [w for w in _KWALL[d] if w not in EPART_POOL] + \
               [w.lower() for w in _KWALL[d] if w.lower() not in EPART_POOL]
        for w in pool:
            for ctx in ('target', 'from'):
                yield 'E5', {'k': 'epath', 'd': d, 'parts': [w], 'ctx': ctx}
        if L['epath'] >= 2:
            for a in EPART_POOL:
                for b in EPART_POOL + [None]:
                    yield 'E5', {'k': 'epath', 'd': d, 'parts': [a, b], 'ctx': 'target'}
    # E7 texts with a doubled delimiter, every context
    for d in DIALECTS:
        for q in ("'", '"', '`'):
            if d in reflex.ESCAPING and q == "'":
                continue                                  # E1 has them
            for u in _products(DBL_UNITS[q], L['dbl']):
                if q + q in u:
                    for ctx in dbl_ctxs(d, q):
                        yield 'E7', {'k': 'ddbl', 'd': d, 'q': q, 'u': u, 'ctx': ctx}
    # E8 every one-word keyword directly followed by `$`
    for d in DIALECTS:
        for w in _KWALL[d]:
            if ' ' in w:
                continue
            for sfx in KW_SUFFIX:
                for ctx in ('target', 'from', 'where', 'order'):
                    yield 'E8', {'k': 'dpath', 'd': d, 'parts': [['w', w + sfx]], 'seps': ['.'], 'ctx': ctx}
            yield 'E8', {'k': 'dpath', 'd': d, 'parts': [['w', 'a'], ['w', w.lower() + '$']], 'seps': ['.'], 'ctx': 'target'}
    # E6 numbers and variables (small fixed grids)
    ints = ['0', '1', '7', '007', '00', '10', '9007199254740993', '12345678901234567890', '1' + '0' * 30, '4294967296']
    floats = ['0.0', '1.5', '1.50', '0.1', '0.00001', '007.50', '123456789.123456789', '0.1234567890123456789',
              '9007199254740993.0', '1' + '0' * 25 + '.0', '0.000000000000000000001', '1.0', '3.14159',
              '1' + '0' * 308 + '.0', '2' + '0' * 308 + '.0', '9' * 400 + '.5']
    for d in DIALECTS:
        for ctx in sorted(LIT_CTX):
            for neg in (0, 1, 2):
                for t in ints + floats + ([] if d == 'mindsdb' else ['1.', '10.', '007.']):
                    yield 'E6', {'k': 'dnum', 'd': d, 't': t, 'neg': neg, 'ctx': ctx}
    for d in DIALECTS:
        for v in DEC_GRID:
            yield 'E6', {'k': 'edec', 'd': d, 'v': v}
    evals = [0, 1, -1, 7, 10 ** 15, 2 ** 53 + 1, -(2 ** 63), 10 ** 30, 0.0, -0.0, 1.5, -1.5, 0.1, 1e-05, 1e16, 1.5e300, 5e-324,
             123456789.12345679, 1e15, 0.0001, 1e22, -2.5e-10, 3.0]
    for d in DIALECTS:
        for v in evals:
            yield 'E6', {'k': 'enum', 'd': d, 'v': v}
    names = ['a', 'A.b', 'a_b', '$x', '.', 'a b', 'a1', "it's", 'a"b', 'x-y', 'a`b', 'ü', 'a\nb', 'a\\', 'select', 'a@b']
    for d in reflex.HAS_VARIABLES:
        for sysv in (False, True):
            for nm in names:
                yield 'E6', {'k': 'evar', 'd': d, 'v': nm, 'sys': sysv}
                for style in ('p', "'", '"', '`'):
                    if style == 'p':
                        if not all(c in reflex._VAR_CH for c in nm):
                            continue
                    elif style in nm or nm[0] not in reflex._VAR_CH:
                        continue
                    for ctx in sorted(VAR_CTX):
                        yield 'E6', {'k': 'dvar', 'd': d, 'sys': sysv, 'style': style, 'name': nm, 'ctx': ctx}


# ------------------------------------------------------------------------------------------------ random part

_PLAIN = st.characters(blacklist_categories=('Cs',))
_HOSTILE = st.sampled_from(list('\'"`\\%_;-/*\n\r\t .@#a0'))


def _text_values():
    return st.one_of(st.text(_PLAIN, max_size=12),
                     st.text(st.one_of(_HOSTILE, _HOSTILE, _PLAIN), max_size=10),
                     st.text(st.sampled_from(ENC_ALPHA), max_size=8))


@st.composite
def _lit_units(draw, d, q):
    esc = d in reflex.ESCAPING
    base = units_for(d, q)
    other = '"' if q == "'" else "'"

    def plain_ok(c):
        return c != q and not (esc and c == '\\')
    plain = st.one_of(_HOSTILE, _PLAIN).filter(plain_ok)
    alts = [st.sampled_from(base), st.sampled_from(base), plain]
    if esc:
        alts.append(st.builds(lambda c: '\\' + c, st.one_of(st.sampled_from(list('\'"\\nrtbZ0%_' + other)), _PLAIN)))
    else:       # escape look-alikes: raw content in these dialects
        alts.append(st.sampled_from(['\\n', '\\t', '\\\\', '\\0', '\\%', '\\' + other, '\\r', '\\b']))
    return draw(st.lists(st.one_of(*alts), max_size=10))


@st.composite
def _path_parts(draw, d, ctx):
    n = draw(st.integers(1, 4))
    parts = []
    for i in range(n):
        styles = ['w', 'w', 'bq', 'kw', 'kw$']
        if d in reflex.DQ_IDENT:
            styles.append('dq')
        if d in reflex.INT_PART and i > 0:
            styles.append('int')
        if i > 0 and i == n - 1 and ctx == 'target' and d != 'sqlite':
            styles.append('star')
        s = draw(st.sampled_from(styles))
        if s == 'w':
            v = draw(st.one_of(st.sampled_from(WORDS),
                               st.text(st.sampled_from(list('abXY_$019')), min_size=1, max_size=6)))
            if all(c.isdigit() for c in v):
                v = v + '_'
            parts.append(['w', v])
        elif s == 'kw':
            parts.append(['w', draw(st.sampled_from(_KWID[d]))])
            if draw(st.booleans()):
                parts[-1][1] = parts[-1][1].lower().capitalize()
        elif s == 'kw$':
            parts.append(['w', draw(st.sampled_from([w for w in _KWALL[d] if ' ' not in w])) +
                          draw(st.sampled_from(['$', '$x', '$1', '$$', '$_a']))])
        elif s == 'bq':
            v = draw(st.one_of(st.sampled_from(BQ_POOL),
                               st.text(st.one_of(_HOSTILE, _PLAIN).filter(lambda c: c != '`'), min_size=1, max_size=8)))
            parts.append(['bq', v])
        elif s == 'dq':
            parts.append(['dq', draw(st.one_of(st.sampled_from(DQI_POOL), _lit_units(d, '"')))])
        elif s == 'int':
            parts.append(['int', draw(st.one_of(st.sampled_from(INT_POOL), st.from_regex(r'[0-9]{1,6}', fullmatch=True)))])
        else:
            parts.append(['star', '*'])
    for i in range(len(parts) - 1):          # `a.1.1b` would lex as a FLOAT: keep the int part, rename the next one
        if parts[i][0] == 'int' and parts[i + 1][0] in ('w', 'int') and parts[i + 1][1][:1].isdigit():
            parts[i + 1] = ['w', 'x' + parts[i + 1][1]]
    if len(parts) == 1 and parts[0][0] == 'dq' and ctx not in ('from', 'insert'):
        parts.insert(0, ['w', 'a'])
    return parts


@st.composite
def cases(draw):
    k = draw(st.sampled_from(['dstr', 'dstr', 'dstr', 'dpath', 'dpath', 'dnum', 'dvar', 'ddbl',
                              'estr', 'estr', 'estr', 'epath', 'epath', 'enum', 'evar', 'edec']))
    d = draw(st.sampled_from(DIALECTS))
    if k == 'ddbl':
        q = draw(st.sampled_from(['"', '`'] if d in reflex.ESCAPING else ["'", '"', '`']))
        plain = st.one_of(_HOSTILE, _PLAIN).filter(lambda c: c != q and c != '\\')
        u = draw(st.lists(st.one_of(st.just(q + q), st.sampled_from(DBL_UNITS[q]), plain), min_size=1, max_size=8))
        if q + q not in u:
            u.insert(draw(st.integers(0, len(u))), q + q)
        return {'k': k, 'd': d, 'q': q, 'u': u, 'ctx': draw(st.sampled_from(dbl_ctxs(d, q)))}
    if k == 'edec':
        v = draw(st.one_of(st.sampled_from(DEC_GRID),
                           st.decimals(allow_nan=False, allow_infinity=False),
                           st.decimals(min_value=-10 ** 6, max_value=10 ** 6, places=draw(st.integers(0, 12))),
                           st.builds(lambda m, e: Decimal(m).scaleb(e), st.integers(-99999, 99999), st.integers(-40, 40))))
        return {'k': k, 'd': d, 'v': str(v)}
    if k == 'dstr':
        q = draw(st.sampled_from(["'", '"']))
        return {'k': k, 'd': d, 'q': q, 'u': draw(_lit_units(d, q)), 'ctx': draw(st.sampled_from(sorted(LIT_CTX)))}
    if k == 'dpath':
        ctx = draw(st.sampled_from(sorted(PATH_CTX) + ['fname', 'fname-distinct']))
        parts = draw(_path_parts(d, ctx))
        seps = draw(st.lists(st.sampled_from(SEPS), min_size=1, max_size=3))
        return {'k': k, 'd': d, 'parts': parts, 'seps': seps, 'ctx': ctx}
    if k == 'dnum':
        ip = draw(st.one_of(st.from_regex(r'[0-9]{1,40}', fullmatch=True), st.integers(0, 2 ** 70).map(str)))
        if draw(st.booleans()):
            fp = draw(st.from_regex(r'[0-9]{1,30}', fullmatch=True)) if (d == 'mindsdb' or draw(st.integers(0, 4))) else ''
            ip = ip + '.' + fp
        return {'k': k, 'd': d, 't': ip, 'neg': draw(st.sampled_from([0, 0, 1, 2])), 'ctx': draw(st.sampled_from(sorted(LIT_CTX)))}
    if k == 'dvar':
        if d not in reflex.HAS_VARIABLES:
            d = draw(st.sampled_from(reflex.HAS_VARIABLES))
        style = draw(st.sampled_from(['p', "'", '"', '`']))
        first = draw(st.sampled_from(sorted(reflex._VAR_CH)))
        if style == 'p':
            rest = draw(st.text(st.sampled_from(sorted(reflex._VAR_CH)), max_size=8))
        else:
            rest = draw(st.text(st.one_of(_HOSTILE, _PLAIN).filter(lambda c: c != style), max_size=8))
        return {'k': k, 'd': d, 'sys': draw(st.booleans()), 'style': style, 'name': first + rest,
                'ctx': draw(st.sampled_from(sorted(VAR_CTX)))}
    if k == 'estr':
        v = draw(_text_values())
        if d not in reflex.ESCAPING and "'" in v and draw(st.integers(0, 3)):
            d = 'mindsdb'
        return {'k': k, 'd': d, 'v': v}
    if k == 'epath':
        ctx = draw(st.sampled_from(['target', 'from', 'where', 'order', 'func']))
        part = st.one_of(st.sampled_from(EPART_POOL), st.sampled_from(_KWALL[d]),
                         st.text(st.one_of(_HOSTILE, _PLAIN), min_size=1, max_size=8),
                         st.text(st.sampled_from(list('abAB_$01')), min_size=1, max_size=6))
        parts = draw(st.lists(part, min_size=1, max_size=4))
        if ctx == 'target' and d != 'sqlite' and len(parts) > 1 and draw(st.integers(0, 5)) == 0:
            parts[-1] = None
        return {'k': k, 'd': d, 'parts': parts, 'ctx': ctx}
    if k == 'enum':
        v = draw(st.one_of(st.integers(-2 ** 80, 2 ** 80), st.integers(-1000, 1000),
                           st.floats(allow_nan=False, allow_infinity=False),
                           st.floats(min_value=-1e6, max_value=1e6, allow_nan=False),
                           st.builds(lambda m, e: m * 10.0 ** e, st.integers(1, 99999), st.integers(-12, 25))))
        return {'k': k, 'd': d, 'v': v}
    if d not in reflex.HAS_VARIABLES:
        d = draw(st.sampled_from(reflex.HAS_VARIABLES))
    v = draw(st.one_of(st.sampled_from(['a', 'a b', 'A.b', "it's", 'x-y', '$x', 'a1']),
                       st.text(st.sampled_from(sorted(reflex._VAR_CH)), min_size=1, max_size=8),
                       st.builds(lambda a, b: a + b, st.sampled_from(sorted(reflex._VAR_CH)),
                                 st.text(st.one_of(_HOSTILE, _PLAIN), max_size=8))))
    return {'k': 'evar', 'd': d, 'v': v, 'sys': draw(st.booleans())}


def run_shard(col, k, nshards, tier, seed):
    names = set()
    for i, (part, c) in enumerate(exhaustive(tier)):
        names.add(part)
        if i % nshards != k:
            continue
        for rec in judge(c, col):
            col.fail(rec, c)
    if k == 0:
        L = EXH_LEN[tier]
        col.exhaustive_parts.extend([
            f"E1 all literal texts of <= {L['sq']} units over {len(SQ_UNITS)} units (mindsdb '...'), <= {L['dq']} over "
            f"{len(DQ_UNITS)} (mindsdb \"...\"), <= {L['raw']} over {len(RAW_SQ_UNITS)} (mysql, sqlite; both quotes) in SELECT <lit>",
            f"E2 all values of <= {L['enc']} characters over {ENC_ALPHA!r} printed by Constant.to_string x 3 dialects",
            f"E3 all \"...\" identifier contents of <= {L['dqi']} units over {DQI_UNITS!r} (mindsdb; FROM and after a dot) and "
            f"all `...` contents of <= {L['bq']} characters over {BQ_CHARS!r} x 3 dialects",
            f"E4 all identifier paths of <= {L['path']} parts over the part pool (words, `...`, \"...\", integers, *; for <= 2 "
            f"parts also every keyword the grammar takes as a name) x 3 dialects",
            'E5 every keyword word of the three lexers (both cases) and the hostile part pool as Identifier parts '
            '(1 part x {target, from}; 2 parts) x 3 dialects',
            'E6 number / variable / Decimal grids (decode x 6 contexts x sign spellings; encode)',
            f"E7 all texts of <= {L['dbl']} units over {DBL_UNITS[chr(34)]!r} (and the ' / ` analogues) that hold the doubled "
            f"delimiter, in every literal / name context x 3 dialects",
            'E8 every one-word keyword of the three lexers directly followed by $ / $x as a plain name '
            '(x {target, from, where, order}; after a dot)'])
    hyp.explore(col, cases(), judge, N[tier], seed)
