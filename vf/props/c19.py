"""C19 — syntax errors of the mindsdb dialect point at the offending token; suggested keywords/symbols are acceptable.

Generated: rejected texts (token delete / dup / replace / insert / swap / truncate / garbage over corpus statements
and grammar derivations, text-level edits that keep the original layout, multi-line layouts with leading blanks,
blank lines and comments, illegal characters).

Oracle (location): k = index of the first token whose prefix the library's parser cannot extend, found by *prefix
parsing* (no position arithmetic) and confirmed against the Earley recogniser of the bare grammar; the message must
show the source line of token k (verbatim, or with comments as blanks; blank-normalised) as its last '>' line and
carets exactly over token k's source characters in that shown line; for end-of-input one caret just after the last token.  Lexer errors:
the first character the token tiling cannot continue with (own whitespace/comment skip), raw source line, one caret;
when the tokens before that character are already rejected at a token, the syntax error of that token is what must be
reported (judged like any other syntax error over the tokens before the character).
Oracle (suggestions): every concrete suggested string, put after the viable prefix in the source text, must be
shifted by the parser (failure, if any, strictly after it) and be a terminal the bare grammar expects there; when a
grammar action rejects that probe, the bare grammar alone decides (a terminal no sentence continues with is a failure).
Rejections raised by grammar actions (clause order / number, types of LIMIT, dotted alias ...): the statement is about every
rejected input, so the message must carry a location too: '>' source line(s) and a caret line whose carets cover exactly
one token of the text (or the slot just after the last one); which token is left open (the statement defines it for
tokens "the grammar cannot accept" only).  The text parse_sql cuts from the end (';' and blanks) belongs to the source line.
"""
import re
from hypothesis import strategies as st

from vf import findings, hyp
from vf.gens import corpus, grammar, mutate
from vf.oracles.earley import Grammar

PROPERTY = 'C19'
D = 'mindsdb'
RULE = ('cases = texts for parse_sql(text, "mindsdb"): token edits (delete/dup/replace/insert/swap/truncate/garbage) of '
        'corpus statements and grammar derivations re-laid-out over lines with leading blanks / blank lines / comments, '
        'text-level edits keeping the original layout (one stray quote among them), illegal characters, a token edit with an illegal character further on, statements that a grammar action rejects followed by a token they cannot go on with, every truncation of the production-pair sentences of the mindsdb grammar, statements that a grammar action rejects (per rejection site, four layouts), '
        'trailing terminators / comments / blank lines after the text (random and a complete family), non-ASCII (wide, combining, right-to-left, astral) characters in strings, names and comments before the error; judged = rejected by the syntax-error path, '
        'the lexer or a grammar action; non-trivial = judged and (error token not first, or input has several lines, or a comment '
        'precedes the error); distinct by text')
ASSUMPTIONS = ['"first token the grammar cannot accept" is located by bisection over prefix parses, i.e. assumes the LR '
               'correct-prefix property of sly (a prefix of a prefix that fails at end of input does not fail at a '
               'token); the boundary is cross-checked with the Earley recogniser of the bare grammar',
               'the shown line may be the verbatim source line or the line with comments replaced by blanks; runs of '
               'blanks are not compared; a multi-line /* */ comment counts as a blank (the lines it joins may be shown '
               'as one line)',
               'which and how many context lines precede the error line is left open (each must be a source line)',
               'suggestion acceptability = the parser shifts it after the viable prefix (weak reading: the rest of the '
               'statement need not parse)',
               '"Empty input" (no token at all: nothing to point at) and internal errors are outside the property; '
               'rejections raised by grammar actions are inside it ("every rejected input"), but only the presence and '
               'the consistency of the location is demanded (source line shown, carets exactly over one token or just '
               'after the last one): the statement says which token only for tokens the grammar cannot accept (texts '
               'rejected at a token are judged in full also when a prefix of them, taken alone, is rejected by an action: '
               'such a prefix counts as acceptable, and a suggestion whose probe an action rejects is judged by the '
               'bare grammar alone: it is a failure only when no sentence continues the prefix with it)',
               'the source line includes what parse_sql cuts from the end of the text (";" and blanks); trailing blanks '
               'are not compared, a cut ";" is',
               'columns are counted in characters (code points): tabs, wide, combining and right-to-left characters '
               'before the token count one column each',
               'when the tokens before an illegal character are already rejected at a token, the message has to be '
               'the syntax error message of that token (the first thing the grammar cannot accept)']
FLOORS = {'quick': {'tok': 2300, 'eof': 900, 'lex': 700, 'multi-line': 2900, 'comment-before-error': 1200,
                    'leading-blank': 1700, 'tok-after-line1': 1000, 'eof-after-line1': 450, 'lex-line3': 330,
                    'sugg-cases': 500, 'sugg-concrete-items': 1700, 'sugg:list-at-token': 100,
                    'illegal-after-syntax-error': 220, 'origin:after-action-reject': 450,
                    'action': 800, 'terminator-on-error-line': 300, 'trailing-comment-after-eof': 100, 'non-ascii-before-error': 130,
                    'origin:action-all': 100, 'origin:wide-all': 80, 'origin:trail-all': 600,
                    '__nontrivial__': 3000},
          'thorough': {'tok': 120000, 'eof': 40000, 'lex': 38000, 'multi-line': 145000, 'comment-before-error': 60000,
                       'leading-blank': 85000, 'tok-after-line1': 54000, 'eof-after-line1': 21000, 'lex-line3': 16000,
                       'sugg-cases': 25000, 'sugg-concrete-items': 84000, 'sugg:list-at-token': 5300,
                       'illegal-after-syntax-error': 220, 'origin:after-action-reject': 450,
                       'action': 800, 'terminator-on-error-line': 300, 'trailing-comment-after-eof': 100, 'non-ascii-before-error': 130,
                       'origin:action-all': 100, 'origin:wide-all': 80, 'origin:trail-all': 600,
                       '__nontrivial__': 148000}}
N = {'quick': 1000, 'thorough': 50000}

COMMENT_RE = re.compile(r'--[^\n]*|/\*[\s\S]*?\*/')
CARET_RE = re.compile(r'(-+)(\^+)')
PLACEHOLDERS = ('[identifier]', '[number]', '[string]')
ILLEGAL = ['#', '\\', '§', '^', '&', '!', '|', '@', 'é', '"', "'", '`', '中']

# complete statements that a grammar action rejects (the semantic checks of the actions: types of LIMIT / OFFSET,
# boolean WHERE / HAVING, order and number of the clauses, dotted aliases, PRIMARY KEY columns, unary minus, '*' where
# a name is needed, required parameters)
ACTION_REJECTED = [
    'CREATE TABLE t (PRIMARY KEY (a))', 'CREATE TABLE t (a INT, PRIMARY KEY (b))', 'CREATE TABLE t (a INT, b INT, PRIMARY KEY (a, c))',
    'CREATE TABLE t (a INT, PRIMARY KEY (a) NOT NULL)', 'CREATE OR REPLACE TABLE d.t (PRIMARY KEY (a))',
    'CREATE TABLE IF NOT EXISTS t (PRIMARY KEY (a, b))',
    'SELECT * FROM t1 LIMIT 1.5', 'SELECT * FROM t1 LIMIT NULL', "SELECT * FROM t1 LIMIT 1, 'a'",
    "SELECT * FROM t1 LIMIT 1 OFFSET 'x'", 'SELECT * FROM t1 LIMIT 2, 1 OFFSET 2', 'SELECT a FROM t WHERE a',
    'SELECT a FROM t GROUP BY a HAVING a', 'SELECT a WHERE a = 1', 'SELECT a FROM t LIMIT 1 WHERE x = 1',
    'SELECT a FROM t LIMIT 1 LIMIT 2', 'SELECT a AS b.c FROM t', 'SELECT a b.c FROM t', 'SELECT * FROM t AS a.b',
    'SELECT * FROM t a.b', 'SELECT - NULL', "SELECT -'a'", 'SELECT a.*(1)', 'SET CHARSET - NULL',
    'SELECT 1 UNION SELECT 2 LIMIT 1 WHERE a = 1', 'CREATE SKILL s USING a = 1', "CREATE CHATBOT c USING model = 'm'",
    "CREATE CHATBOT c USING database = 1, model='m'", 'SELECT * FROM t USING a.* = 1',
    'CREATE MODEL m PREDICT a USING b.* = 1',
    'SELECT sum(a) OVER (ORDER BY b PARTITION BY c) FROM t', 'SELECT sum(a) OVER (PARTITION BY a PARTITION BY b) FROM t',
    'SELECT sum(a) OVER (ORDER BY a ORDER BY b) FROM t', 'SELECT a.b.f(x) FROM t', 'SELECT a.b.f(DISTINCT x) FROM t',
    'SELECT `` FROM t', 'SELECT * FROM t AS x (a, b)', 'SELECT a FROM t LIMIT 1 OFFSET 2 OFFSET 3',
    'SELECT a FROM t ORDER BY a GROUP BY b', 'SELECT a FROM t LIMIT 1 ORDER BY a', 'SELECT a FROM t HAVING a = 1 WHERE b = 1',
    'SELECT a FROM (SELECT b FROM t LIMIT 1 WHERE c = 1)', 'DESCRIBE *', 'DESCRIBE MODEL *', 'SET x y',
    'CREATE JOB j (SELECT 1) START now START now', 'CREATE JOB j (SELECT 1) EVERY 1 hour EVERY 2 hour',
    'SELECT 1' + '0' * 400 + '.0', 'SELECT 1e999']
# what is put after them: a token the statement cannot go on with
AFTER_REJECTED = ['x', ')', ',', '1', "'s'", 'FROM', 'NULL', '(', '=', 'AND', '.', 'UNION SELECT 1 x']

_S = {}


def prepare(tier):
    from mindsdb_sql import get_lexer_parser
    lexer, parser = get_lexer_parser(D)
    _S['lexer'] = type(lexer)
    _S['g'] = Grammar(type(parser))
    gg = grammar.get(D)
    bases, texts = [], []
    for x in corpus.accepted(D):
        s = strip(x['sql'])
        sp = mutate.lex_spans(_S['lexer'], s)
        if sp and 2 <= len(sp) <= 60:
            bases.append([t[1] for t in sp])
            texts.append(s)
    _S['bases'] = bases
    _S['texts'] = texts
    _S['rejected'] = [x['sql'] for x in corpus.rejected(D)]
    _S['keyword_types'] = set(gg.kw)
    # statements in which every token is acceptable and a grammar action rejects the whole: one per rejection site of
    # the grammar actions, and those of the corpus (kept when the library in fact rejects them that way)
    pool = ACTION_REJECTED + [strip(x) for x in _S['rejected']]
    _S['action_rejected'] = [x for i, x in enumerate(pool) if x not in pool[:i] and status(x)[0] == 'action']
    _S['lexemes'] = NON_ASCII + gg.all_lexemes('lite') + ["'a\nb'", '@v', "'it''s'", "''", '@@sv', '"a\\"b"']


def strip(sql):
    return re.sub(r'[\s;]+$', '', sql)


def norm(s):
    return ' '.join(s.split())


# ---------------------------------------------------------------------------------------------------------------
# observation

def status(text):
    """('ok'|'eof'|'tok'|'empty'|'action'|'lex'|'crash', message)."""
    from mindsdb_sql import parse_sql
    from mindsdb_sql.exceptions import ParsingException
    from sly.lex import LexError
    try:
        parse_sql(text, D)
        return 'ok', None
    except ParsingException as e:
        m = str(e)
        if m.startswith('Syntax error, unexpected end of query:'):
            return 'eof', m
        if m.startswith('Syntax error, unknown input:'):
            return 'tok', m
        if m == 'Empty input':
            return 'empty', m
        return 'action', m
    except LexError as e:
        return 'lex', str(e)
    except RecursionError:
        return 'crash', 'RecursionError'
    except Exception as e:
        return 'crash', type(e).__name__


def guard(text):
    """parse_sql strips trailing ';' and blanks: keep a trailing ';' token in the judged text."""
    return text + ' --' if text.rstrip().endswith(';') else text


def lex_until_error(s):
    """(spans, error_position|None): the tokens the lexer produced before it gave up."""
    from sly.lex import LexError
    spans = []
    try:
        for t in _S['lexer']().tokenize(s):
            spans.append((t.type, s[t.index:t.end], t.index, t.end))
        return spans, None
    except LexError:
        e = spans[-1][3] if spans else 0
        return spans, mutate.WS_RE.match(s, e).end()


def split_message(msg):
    """(header, shown lines without '>', caret line, suggestion items|None) or None when the shape is unknown."""
    lines = msg.split('\n')
    sugg = None
    if lines[-1].startswith('Possible inputs: ') or lines[-1].startswith('Expected symbol: '):
        sugg = re.findall(r'"([^"]*)"', lines[-1].split(': ', 1)[1])
        lines = lines[:-1]
    if len(lines) < 2:
        return None
    header, caret, block = lines[0], lines[-1], '\n'.join(lines[1:-1])
    if not CARET_RE.fullmatch(caret):
        return None
    shown = block[1:].split('\n>') if block.startswith('>') else []
    return header, shown, caret, sugg


# ---------------------------------------------------------------------------------------------------------------
# reference model of the source layout (own code: text + token spans only, no lineno / token values)

def line_groups(s, spans):
    """Split the token indices into lines.  A line break is a newline between two tokens that is not inside a
    comment.  Returns (list of [token indices], expected text of each line with comments as blanks)."""
    groups, texts = [[0]], [spans[0][1]]
    for j in range(1, len(spans)):
        gap = s[spans[j - 1][3]:spans[j][2]]
        gap_nc = COMMENT_RE.sub(' ', gap)
        if '\n' in gap_nc:
            groups.append([j]); texts.append(spans[j][1])
        else:
            groups[-1].append(j)
            texts[-1] += (' ' if gap else '') + spans[j][1]
    return groups, texts


def first_unacceptable(s, spans, col):
    """Index k of the first token such that the prefix ending with it fails at a token (the full text does).
    None when a prefix is rejected by an internal error (inconclusive)."""
    n = len(spans)
    types = [x[0] for x in spans]
    kE = _S['g'].viable_prefix_len(types)
    memo = {}

    def st_(j):
        if j not in memo:
            memo[j] = status(guard(s[:spans[j - 1][3]]))[0] if j < n else 'tok'
        return memo[j]

    lo, hi = 0, n            # invariant: prefix of lo tokens does not fail at a token, prefix of hi tokens does
    probes = [p for p in (kE, kE + 1) if 0 < p < n]
    while hi - lo > 1:
        m = probes.pop(0) if probes else (lo + hi) // 2
        if not lo < m < hi:
            continue
        r = st_(m)
        if r == 'tok':
            hi = m
        elif r in ('ok', 'eof', 'empty'):
            lo = m
        elif r == 'action':
            # a grammar action rejects the prefix at its end.  Were one of its tokens unacceptable, the parser would
            # have met it exactly as in the full text (same tokens, same actions up to there) and failed at a token
            lo = m
            col.cls('a-prefix-is-rejected-by-a-grammar-action')
        else:
            col.excluded('a prefix is rejected by an internal error')
            return None, kE
    return hi - 1, kE


def subsequence(xs, ys):
    j = 0
    for x in xs:
        while j < len(ys) and ys[j] != x:
            j += 1
        if j == len(ys):
            return False
        j += 1
    return True


def tags_for(spans, idxs, k=None):
    out = set()
    for j in idxs:
        ty, src = spans[j][0], spans[j][1]
        if '\n' in src:
            out.add('multiline-token-on-line')
        if ty in ('VARIABLE', 'SYSTEM_VARIABLE'):
            out.add('rewritten-on-line:' + ty)
        elif ty == 'QUOTE_STRING' and ("''" in src[1:-1] or '\\' in src or src == "''"):
            out.add('rewritten-on-line:' + ty)
        elif ty == 'DQUOTE_STRING' and '\\' in src:
            out.add('rewritten-on-line:' + ty)
    return out


# ---------------------------------------------------------------------------------------------------------------
# the oracle

def judge(case, col):
    sql = case['sql']
    origin = case.get('origin', '?')
    cfg = {'dialect': D}
    kind, msg = status(sql)
    classes = ['origin:' + origin.split(':')[0]]
    if kind in ('ok', 'crash', 'empty'):
        why = {'ok': 'accepted', 'crash': 'internal error (C02)', 'empty': 'empty input'}[kind]
        col.excluded(why)
        col.case(sql, False, classes + ['outside:' + kind])
        return []
    s = strip(sql)
    out = []
    if kind == 'lex':
        nontrivial, cl = judge_lex(s, msg, cfg, out, sql)
    elif kind == 'action':
        nontrivial, cl = judge_action(s, msg, cfg, out, sql)
        if cl is None:
            col.excluded('no tokens')
            col.case(sql, False, classes + ['inconclusive'])
            return []
    else:
        nontrivial, cl = judge_syntax(s, kind, msg, cfg, out, sql, col)
        if cl is None:
            col.case(sql, False, classes + ['inconclusive'])
            return []
    col.case(sql, nontrivial, classes + [kind] + cl, {'sql': sql, 'message': msg})
    return out


def judge_lex(s, msg, cfg, out, sql):
    spans, p = lex_until_error(s)
    cl = []

    def bad(kind, feats, detail):
        out.append(findings.record(kind, 'MindsDBLexer.error', feats, cfg, detail + ' | message: ' + repr(msg), sql))

    if p is None or p >= len(s):
        bad('lex-oracle', [], 'lexer raised but own scan found no stop position')
        return False, cl
    lines = sql.split('\n')         # the text as given: what parse_sql cuts from its end belongs to the line
    ls = s.rfind('\n', 0, p) + 1
    li = s.count('\n', 0, p)
    c = p - ls
    multi = len(lines) > 1
    if multi:
        cl.append('multi-line'); cl.append('lex-line%d' % min(li + 1, 3))
    if COMMENT_RE.search(s[:p]):
        cl.append('comment-before-error')
    if s[:1] in ' \t\n':
        cl.append('leading-blank')
    if ';' in lines[li][c:]  and '\n' not in s[p:] and ';' in sql[len(s):].split('\n')[0]:
        cl.append('terminator-on-error-line')
    if any(ord(x) > 127 for x in s[ls:p]):
        cl.append('non-ascii-before-error')
    feats = ['multi-line' if multi else 'one-line', 'error-on-first-line' if li == 0 else 'error-on-later-line']
    # the tokens before the illegal character: when the parser cannot extend them (their text fails at a token, which
    # the bare grammar confirms), the first thing the grammar cannot accept is that token, not the character further on
    if spans:
        head = status(guard(s[:spans[-1][3]]))[0]
        kE = _S['g'].viable_prefix_len([x[0] for x in spans])
        # cut before the character the last token can be another one (`and` before a word character is a name, at the
        # end of the text it is the keyword: \b): then the cut text says nothing about the tokens of the full text
        cut_spans = mutate.lex_spans(_S['lexer'], s[:spans[-1][3]])
        if cut_spans is None or [x[0] for x in cut_spans] != [x[0] for x in spans]:
            cl.append('cut-text-is-tokenised-differently')
            head = None
        if head == 'tok':
            cl.append('illegal-after-syntax-error')
            bad('lex-hides-syntax-error', ['syntax-error-before-illegal-character',
                                           'bare-grammar-agrees' if kE < len(spans) else 'parser-stricter-than-grammar'],
                'the text before the illegal character at %d is rejected at a token (bare grammar: token %d %r of %d), '
                'the message is about the character' % (p, kE, spans[kE][1] if kE < len(spans) else None, len(spans)))
            return True, cl
    m = msg.split('\n')
    if m[0] != 'Illegal character %r:' % s[p]:
        bad('lex-wrong-character', feats, 'expected header %r' % ('Illegal character %r:' % s[p]))
    shown = [x[1:] for x in m[1:-1] if x.startswith('>')]
    if len(shown) != len(m) - 2 or not shown:
        bad('lex-no-source-line', feats, 'no ">" source line for the error on line %d of %d' % (li + 1, len(lines)))
    else:
        if shown[-1].rstrip(' \t\r') != lines[li].rstrip(' \t\r'):
            f2 = feats + (['only-terminator-missing'] if shown[-1].rstrip() == strip(lines[li]) else [])
            bad('lex-wrong-line', f2, 'last shown line %r, source line %r' % (shown[-1], lines[li]))
        elif shown[:-1] != lines[max(0, li - len(shown) + 1):li]:
            bad('lex-context-line', feats, 'context lines %r are not the preceding source lines' % (shown[:-1],))
    if m[-1] != '-' * (c + 1) + '^':
        bad('lex-caret', feats, 'caret line %r, expected column %d' % (m[-1], c))
    return (p > 0 and (multi or bool(spans) or 'comment-before-error' in cl)), cl


def action_class(msg):
    """A short tag for the rejection site: the words of the message before the quoted values."""
    head = re.split(r"[:,.(]| got\b| '|\d", msg.split('\n')[0])[0]
    return 'msg:' + '-'.join(re.findall(r'[A-Za-z]+', head)[:5]).lower()


def judge_action(s, msg, cfg, out, sql):
    """A grammar action rejected the text.  Demanded: a location (">" source lines + a caret line) whose carets cover
    exactly one token of the text or the slot just after the last one.  Which token is left open."""
    spans = mutate.lex_spans(_S['lexer'], s)
    if spans is None:
        spans, _ = lex_until_error(s)
    if not spans:
        return False, None
    cl = [action_class(msg)]
    if '\n' in s:
        cl.append('multi-line')
    feats = [action_class(msg)]

    def bad(kd, detail):
        out.append(findings.record(kd, 'grammar-action', feats, cfg, detail + ' | message: ' + repr(msg), sql))

    m = msg.split('\n')
    ci = max((i for i, x in enumerate(m) if CARET_RE.fullmatch(x)), default=None)
    shown = []
    if ci is not None:
        j = ci - 1
        while j >= 0 and m[j].startswith('>'):
            shown.insert(0, m[j][1:]); j -= 1
    if not shown:
        bad('action-no-location', 'the message shows no source line and no carets (%d tokens, %d lines)'
            % (len(spans), s.count('\n') + 1))
        return len(spans) > 1, cl
    cm = CARET_RE.fullmatch(m[ci])
    ccol, clen = len(cm.group(1)) - 1, len(cm.group(2))
    last = shown[-1]
    src_lines = sql.split('\n')
    ok, ctx_ok = False, False
    for (_, src, a, b) in spans + [('$end', ' ', spans[-1][3], spans[-1][3] + 1)]:
        ls = s.rfind('\n', 0, a) + 1
        li = s.count('\n', 0, a)
        part = src.split('\n')[0]
        if a - ls == ccol and clen == len(part) and last.rstrip(' \t\r') == src_lines[li].rstrip(' \t\r'):
            ok = True
            ctx_ok = ctx_ok or subsequence(shown[:-1], src_lines[:li])
    if ok and not ctx_ok:
        bad('action-context-line', 'shown context %r is not a sequence of earlier source lines' % (shown[:-1],))
    if not ok:
        bad('action-location', 'shown line %r with carets at col %d len %d: not the source line of a token of the text '
            'with the carets exactly over it (or one caret just after the last token)' % (last, ccol, clen))
    return len(spans) > 1, cl


def judge_syntax(s, kind, msg, cfg, out, sql, col):
    spans = mutate.lex_spans(_S['lexer'], s)
    cl = []
    if spans is None:
        # a syntax error message for a text with an illegal character: the error must be among the tokens before it
        spans, _ = lex_until_error(s)
        cl.append('illegal-after-syntax-error')
    if not spans:
        col.excluded('no tokens')
        return False, None
    pos = 0
    for (_, _, i, e) in spans:
        if not mutate.WS_RE.fullmatch(s[pos:i]):
            col.excluded('gap between tokens is not blank/comment (C05)')
            return False, None
        pos = e
    n = len(spans)
    types = [x[0] for x in spans]
    g = _S['g']

    def bad(kd, site, feats, detail):
        out.append(findings.record(kd, site, feats, cfg, detail + ' | message: ' + repr(msg), sql))

    # -- which token
    if kind == 'tok':
        k, kE = first_unacceptable(s, spans, col)
        if k is None:
            return False, None
        if k < kE:
            cl.append('parser-stricter-than-grammar')
        if k > kE:
            bad('prefix-not-viable', 'earley', [], 'parser extends the prefix up to token %d, bare grammar only to %d'
                % (k, kE))
            return False, cl
    else:
        k, kE = n, g.viable_prefix_len(types)
        if kE < n:
            bad('eof-claimed', 'error_location', [], 'message says end of query, but token %d %r is not acceptable in '
                'the bare grammar' % (kE, spans[kE][1]))
            return False, cl
    groups, texts = line_groups(s, spans)
    gi = next(i for i, gr in enumerate(groups) if (k if k < n else n - 1) in gr)
    grp = groups[gi]
    multi = '\n' in s
    err_pos = spans[k][2] if k < n else spans[-1][3]
    if multi:
        cl.append('multi-line')
    gaps = s[:spans[0][2]] + ''.join(s[spans[j][3]:spans[j + 1][2]] for j in range(min(k, n - 1)))
    if COMMENT_RE.search(gaps):
        cl.append('comment-before-error')
    if s[:1] in ' \t\n':
        cl.append('leading-blank')
    if gi > 0:
        cl.append('tok-after-line1' if kind == 'tok' else 'eof-after-line1')
    if k == 0:
        cl.append('error-at-first-token')
    nontrivial = k > 0 or multi or 'comment-before-error' in cl

    parts = split_message(msg)
    ltags = tags_for(spans, grp)
    if parts is None:
        bad('message-shape', 'error_location', sorted(ltags), 'cannot split message into header / >lines / caret line')
        return nontrivial, cl
    header, shown, caret, sugg = parts
    if not shown or any('\n' in x for x in shown):
        feats = set(ltags)
        for x in range(len(groups)):
            if x <= gi:
                feats |= {t for t in tags_for(spans, groups[x]) if t.startswith('multiline')}
        bad('message-shape', 'error_location', sorted(feats), 'a shown source line is broken over several message lines')
        return nontrivial, cl
    m = CARET_RE.fullmatch(caret)
    ccol, clen = len(m.group(1)) - 1, len(m.group(2))
    last = shown[-1]
    where = 'line %d of %d' % (gi + 1, len(groups))

    # -- the shown line is the source line: either verbatim or with comments as blanks (blank-normalised)
    ls = s.rfind('\n', 0, err_pos) + 1
    le = sql.find('\n', err_pos)
    raw_line = sql[ls:] if le < 0 else sql[ls:le]
    # what parse_sql cut from the end of the text, as far as it stands on the line of the error (';' and blanks)
    cut = sql[len(s):].split('\n')[0] if '\n' not in s[err_pos:] else ''
    if ';' in cut:
        cl.append('terminator-on-error-line')
    if any(ord(x) > 127 for x in s[ls:err_pos]):
        cl.append('non-ascii-before-error')
    if kind == 'eof' and COMMENT_RE.search(s[spans[-1][3]:]):
        cl.append('trailing-comment-after-eof')
    line_ok = norm(last) in (norm(texts[gi] + ' ' + cut), norm(raw_line))
    if not line_ok:
        only = ';' in cut and norm(last) in (norm(texts[gi]), norm(s[ls:]))
        bad('line-not-reproduced', 'error_location', sorted(ltags | ({'only-terminator-missing'} if only else set())),
            '%s: shown %r, source %r' % (where, norm(last), norm(raw_line)))
    # -- context lines are earlier source lines, in order (how many is left open)
    ctx = [norm(x) for x in shown[:-1]]
    if not (subsequence(ctx, [norm(t) for t in texts[:gi]]) or subsequence(ctx, [norm(t) for t in s[:ls].split('\n')[:-1]])):
        ctags = set()
        for x in range(gi):
            ctags |= tags_for(spans, groups[x])
        bad('context-line', 'error_location', sorted(ctags), 'shown context %r is not a sequence of earlier source '
            'lines %r' % (shown[:-1], [norm(t) for t in texts[max(0, gi - 3):gi]]))

    # -- carets
    prefix_src = ''
    for j in grp:
        if j == k:
            break
        gap = s[spans[j][3]:spans[j + 1][2]] if j + 1 < n else ''
        prefix_src += spans[j][1] + (' ' if gap else '')
    before_ok = norm(last[:ccol]) in (norm(prefix_src), norm(s[ls:err_pos]))
    if kind == 'tok':
        src = spans[k][1]
        ttag = {t.replace('-on-line', '-error-token') for t in tags_for(spans, [k])}
        marked = last[ccol:ccol + clen]
        if '\n' in src:
            # a token that spans lines cannot be marked by one caret line: its part on the shown (first) line is what
            # the carets can cover (the property does not say more)
            src = src.split('\n')[0]
        if marked != src or clen != len(src):
            bad('caret-span', 'error_location', sorted(ttag), '%s: carets mark %r (col %d len %d), offending '
                'token %d is %r' % (where, marked, ccol, clen, k, src))
        elif line_ok and not before_ok:
            bad('caret-occurrence', 'error_location', [], '%s: text before the carets %r, source before '
                'token %d %r' % (where, norm(last[:ccol]), k, norm(prefix_src)))
    else:
        # what follows the caret on the shown line is what follows the last token on that line of the source: blanks
        # and comments only, possibly the beginning of a comment that goes on in the next line
        rest_src = sql[spans[-1][3]:].split('\n')[0]
        rest_ok = mutate.WS_RE.fullmatch(last[ccol:]) or last[ccol:].strip() == rest_src.strip()
        if (clen != 1 or ccol == 0 or last[ccol - 1:ccol].strip() == '' or not rest_ok
                or (line_ok and not before_ok)):
            bad('caret-eof', 'error_location', sorted(ltags), '%s: caret col %d len %d, shown line %r; expected one '
                'caret just after %r' % (where, ccol, clen, last, spans[-1][1]))

    # -- suggestions
    if sugg:
        concrete = [x for x in sugg if x not in PLACEHOLDERS]
        if concrete:
            cl.append('sugg-cases')
        prefix_text = s[:spans[k - 1][3]] if k > 0 else ''
        exp = g.expected_after(types[:k])
        for item in concrete:
            col.cls('sugg-concrete-items')
            it = mutate.lex_spans(_S['lexer'], item)
            ity = [x[0] for x in it] if it else None
            feats = ['single-suggestion' if len(sugg) == 1 else 'list-at-eof' if kind == 'eof' else 'list-at-token']
            col.cls('sugg:' + feats[0])
            if ity is not None and len(ity) == 1 and it[0][1] == item and ity[0] in _S['keyword_types']:
                feats.append('lexer-keyword-or-symbol')
            elif re.search(r'\[.*\]', item):
                feats.append('regex-residue')
            else:
                feats.append('not-a-lexeme')
            text2 = prefix_text + ' ' + item
            sp2 = mutate.lex_spans(_S['lexer'], text2)
            if ity is not None and sp2 is not None and [x[0] for x in sp2] != types[:k] + ity:
                col.excluded('suggestion merges with the preceding token')
                continue
            r = status(guard(text2))[0]
            if r in ('action', 'crash', 'empty'):
                if r == 'action' and ity and ity[0] not in exp:
                    # a grammar action rejects the probe, so the parser does not tell whether it shifted the suggested
                    # token; the bare grammar does: no sentence continues the prefix with it, an LR parser cannot shift it
                    col.cls('sugg:probe-rejected-by-action-and-outside-grammar')
                    bad('suggestion-not-acceptable', 'make_suggestion', feats + ['probe-rejected-by-grammar-action',
                                                                                   'not-expected-by-bare-grammar'],
                        'suggested %r: %r is rejected by a grammar action and %s cannot follow the prefix in the bare '
                        'grammar (expected there: %s)' % (item, text2[-60:], ity[0], sorted(exp)[:8]))
                    continue
                col.excluded('suggestion probe rejected by a grammar action / internal error')
                continue
            if r in ('tok', 'lex'):
                if kind == 'tok' and len(sugg) > 1 and k > 0:
                    # does the whole statement parse when the suggestion replaces the token *before* the offending one?
                    alt = s[:spans[k - 1][2]] + item + ' ' + s[spans[k][2]:]
                    feats.append('valid-if-previous-token-replaced' if status(alt)[0] == 'ok' else
                                 'invalid-if-previous-token-replaced')
                bad('suggestion-not-acceptable', 'make_suggestion', feats,
                    'suggested %r, but %r fails at it (%s)' % (item, text2[-60:], r))
            elif ity and ity[0] not in exp:
                bad('suggestion-outside-grammar', 'earley', feats,
                    'suggested %r is shifted by the parser but %s is not expected by the bare grammar after the '
                    'prefix' % (item, ity[0]))
            else:
                col.cls('sugg-confirmed')
    elif sugg is None:
        cl.append('no-suggestion')
    return nontrivial, cl


# ---------------------------------------------------------------------------------------------------------------
# generators

SEPS = [' ', ' ', ' ', '  ', '\n', '\n', '\n  ', '\n\t', ' \n', '\n\n', '\n \n    ', ' -- c\n', " -- it's (\n  ",
        ' /* c */ ', '/**/', ' /* a\n b */ ', '\t', '\r\n', '\n-- only a comment\n',
        # characters that str.splitlines() -- but not the library's notion of a line -- treats as line ends
        ' /* a\x0cb */ ', ' /* a\x0bb */ ', ' /* a\u2028b */ ', ' /* a\x85b */ ', ' -- a\x1cb\x1dc\n', ' \r ', '\r',
        '\n/* a\x0cb */ ', ' /* a\rb */ ']
SEPS += [' /* \u4e2d\u6587 \U0001f600 */ ', ' -- e\u0301\u0301 \u05e2\u05d1\n', '\t/* \u00e9 */\t']
# what may follow the last token: terminators, blanks, comments (parse_sql cuts the ';' and blanks at the very end)
TRAILS = [';', ' ;', ';  ', ' ;\n', ';;', '\t;\n\n', ' -- c', '\n-- c', ' /* c */', ' /* a\nb */', '\n\n', ' -- c\n;', '; -- c',
          ' /* c */;', ' ; \r\n']
NON_ASCII = ["'\u4e2d\u6587'", "'e\u0301\u0301x'", "'\u05e2\u05d1\u05e8\u05d9\u05ea'", "'\U0001f600'", '`na\u00efve`', '"\u00fcn\u00ef"',
             "'\uff21\uff22'"]
WIDE_HEADS = ["select '\u4e2d\u6587'", "select `e\u0301\u0301` , '\u05e2\u05d1\u05e8\u05d9\u05ea'", "select /* \U0001f600 */ a, '\U0001f600\U0001f600'",
              "select\t'\uff21\uff22'\t,\t`\u00fc`", "select a -- \u4e2d\n , '\u4e2d'"]
WIDE_TAILS = ['from from t', 'from t where', 'from t t2 t3', 'from t #', 'from t limit 1 limit 2', "from 'a\nb' x y"]
LEADS = ['', '', ' ', '\n', '   ', '\t', '\n\n  ', '-- lead\n', '/* lead */', '  /* a\n b */  ', '-- a\n-- b\n  ']


@st.composite
def rich_layout(draw, tokens):
    out = [draw(st.sampled_from(LEADS))]
    for k, tok in enumerate(tokens):
        if k:
            out.append(draw(st.sampled_from(SEPS)))
        out.append(tok)
    return ''.join(out)


@st.composite
def lines_layout(draw, tokens):
    """A few tokens per line, indented: the usual way statements are written."""
    out = [draw(st.sampled_from(['', '', '\n', '  ']))]
    indent = draw(st.sampled_from(['', '  ', '    ', '\t']))
    for k, tok in enumerate(tokens):
        if k:
            out.append('\n' + indent if draw(st.integers(0, 3)) == 0 else ' ')
        out.append(tok)
    return ''.join(out)


@st.composite
def cases(draw):
    gg = grammar.get(D)
    mode = draw(st.sampled_from(['tok-mut', 'tok-mut', 'tok-mut', 'tok-mut', 'text-edit', 'text-edit', 'illegal',
                                 'rejected', 'truncate', 'illegal-after-error', 'after-action-reject']))
    if mode == 'after-action-reject':
        # a statement that a grammar action rejects, followed by (or cut before its last token and followed by) a
        # token it cannot go on with: the parser is in an error state whose reductions raise
        toks = mutate.source_tokens(_S['lexer'], draw(st.sampled_from(_S['action_rejected'])))
        if draw(st.integers(0, 3)) == 0:
            toks = toks[:-1]
        toks = toks + draw(st.sampled_from(AFTER_REJECTED + _S['lexemes'])).split(' ')
        sql = ' '.join(toks) if draw(st.booleans()) else draw(rich_layout(toks))
        return {'sql': sql, 'origin': 'after-action-reject'}
    if mode == 'text-edit':
        # edit the original text of a corpus statement, keeping its layout
        i = draw(st.integers(0, len(_S['texts']) - 1))
        s = _S['texts'][i]
        sp = mutate.lex_spans(_S['lexer'], s)
        j = draw(st.integers(0, len(sp) - 1))
        (_, src, a, b) = sp[j]
        kind = draw(st.sampled_from(['delete', 'dup', 'replace', 'insert', 'truncate', 'stray-quote']))
        if kind == 'stray-quote':
            # one quote character too many: the rest of the text is tokenised differently, often up to a quote that
            # nothing closes (an illegal character after the token the grammar cannot accept)
            q = draw(st.sampled_from(["'", '"', '`']))
            sql = s[:a] + q + (' ' if draw(st.booleans()) else '') + s[a:]
        elif kind == 'delete':
            sql = s[:a] + s[b:]
        elif kind == 'dup':
            sql = s[:b] + ' ' + src + s[b:]
        elif kind == 'replace':
            sql = s[:a] + draw(st.sampled_from(_S['lexemes'])) + s[b:]
        elif kind == 'insert':
            sql = s[:a] + draw(st.sampled_from(_S['lexemes'])) + ' ' + s[a:]
        else:
            sql = s[:a]
        return {'sql': sql, 'origin': 'text-edit:' + kind}
    if mode == 'rejected':
        sql = draw(st.sampled_from(_S['rejected']))
        toks = mutate.source_tokens(_S['lexer'], strip(sql))
        if toks and draw(st.booleans()):
            sql = draw(rich_layout(toks))
        return {'sql': sql, 'origin': 'rejected-corpus'}
    src = draw(st.sampled_from(['corpus', 'corpus', 'grammar']))
    base = draw(st.sampled_from(_S['bases'])) if src == 'corpus' else draw(gg.sentence())
    if mode == 'truncate':
        toks = base[:draw(st.integers(1, max(1, len(base) - 1)))]
        kind = 'truncate'
    elif mode == 'illegal':
        toks = list(base)
        kind = 'illegal'
    elif mode == 'illegal-after-error':
        # a token edit and, further on, an illegal character: the syntax error comes first
        kind, toks = draw(mutate.mutation(base, _S['lexemes']))
    else:
        kind, toks = draw(mutate.mutation(base, _S['lexemes']))
        if draw(st.integers(0, 5)) == 0:
            _, toks = draw(mutate.mutation(toks, _S['lexemes']))
    lay = draw(st.sampled_from(['flat', 'rich', 'rich', 'rich', 'lines', 'lines', 'mutate-layout']))
    if lay == 'flat':
        sql = ' '.join(toks)
    elif lay == 'rich':
        sql = draw(rich_layout(toks))
    elif lay == 'lines':
        sql = draw(lines_layout(toks))
    else:
        sql = draw(mutate.layout(toks))
    if mode == 'illegal-after-error':
        ch = draw(st.sampled_from(ILLEGAL))
        ends = [m_.end() for m_ in re.finditer(r'\S+', sql)] or [0]
        p = draw(st.sampled_from(ends[len(ends) // 2:]))
        sql = sql[:p] + draw(st.sampled_from([' ', '', '\n'])) + ch + sql[p:]
    if mode == 'illegal':
        ch = draw(st.sampled_from(ILLEGAL))
        where = draw(st.sampled_from(['char', 'gap', 'gap']))
        if where == 'char' or not sql:
            p = draw(st.integers(0, len(sql)))
        else:
            ends = [m_.end() for m_ in re.finditer(r'\S+', sql)] or [0]
            p = draw(st.sampled_from(ends))
            ch = ' ' + ch
        sql = sql[:p] + ch + sql[p:]
    if draw(st.integers(0, 3)) == 0:
        sql += draw(st.sampled_from(TRAILS))
        lay += '+trail'
    return {'sql': sql, 'origin': '%s:%s:%s:%s' % (mode, src, kind, lay)}


def run_shard(col, k, nshards, tier, seed):
    # deterministic part: the statements the repository's tests expect to be rejected, and every truncation of a
    # slice of the corpus statements (original layout)
    det = [{'sql': x, 'origin': 'rejected-corpus:verbatim'} for x in _S['rejected']]
    step = 6 if tier == 'quick' else 1
    for i, s in enumerate(_S['texts']):
        if i % step:
            continue
        sp = mutate.lex_spans(_S['lexer'], s)
        for (_, _, a, b) in sp[1:]:
            det.append({'sql': s[:a], 'origin': 'truncate-all:corpus'})
    # every statement a grammar action rejects, followed by each of a list of tokens it cannot go on with
    for x in _S['action_rejected']:
        for t in AFTER_REJECTED:
            det.append({'sql': x + ' ' + t, 'origin': 'after-action-reject:all'})
    # a syntax error and an illegal character after it: the rejected statements of the corpus and the same-tail family
    # with an illegal character (in the same line, in a later line) at the end
    from vf.props.c20 import ERR_HEADS, ERR_TAILS
    for x in [strip(y) for y in _S['rejected']] + [h + ' ' + t for t in ERR_TAILS for h in ERR_HEADS]:
        for t in (' #', '\n  !', " 'x"):
            det.append({'sql': x + t, 'origin': 'illegal-after-error:all'})
    # what follows the text: every trailer after the same-tail family, (a slice of) the rejected corpus statements and
    # their truncations before the last token
    heads = [h + ' ' + t for t in ERR_TAILS for h in ERR_HEADS]
    rej = [strip(y) for y in _S['rejected']][::3 if tier == 'quick' else 1]
    for x in heads + rej + [y[:mutate.lex_spans(_S['lexer'], y)[-1][2]] for y in rej if mutate.lex_spans(_S['lexer'], y)]:
        for t in TRAILS:
            det.append({'sql': x + t, 'origin': 'trail-all'})
    # end-of-input errors with something after the last token: a slice of the corpus statements cut before their last token
    for y in _S['texts'][3::12 if tier == 'quick' else 2]:
        sp = mutate.lex_spans(_S['lexer'], y)
        for t in TRAILS:
            det.append({'sql': y[:sp[-1][2]] + t, 'origin': 'trail-all:eof'})
    # the statements a grammar action rejects, as they are and in three layouts
    for x in _S['action_rejected']:
        toks = mutate.source_tokens(_S['lexer'], x)
        for y in (x, '\n'.join(toks), '-- lead\n  ' + '\n\t'.join(toks) + ' ;', '/* a\nb */ ' + x + ' -- c'):
            det.append({'sql': y, 'origin': 'action-all'})
    # wide / combining / right-to-left / astral characters and tabs before the error
    for h in WIDE_HEADS:
        for t in WIDE_TAILS:
            for sep in (' ', '\t', '\n', ' /* \u4e2d */ '):
                for tr in ('', ' ;'):
                    det.append({'sql': h + sep + t + tr, 'origin': 'wide-all'})
    for i, c in enumerate(det):
        if i % nshards == k:
            for rec in judge(c, col):
                col.fail(rec, c)
    # the same erroneous tail in different statement contexts, judged one after the other in this process (all shards
    # run the family, each starting at another head): one LALR state, different acceptable continuations
    from vf.props.c20 import ERR_HEADS, ERR_TAILS
    fam = [h + ' ' + t for t in ERR_TAILS for h in ERR_HEADS]
    fam = fam[k % len(fam):] + fam[:k % len(fam)]
    for sql in fam:
        c = {'sql': sql, 'origin': 'same-tail-family'}
        for rec in judge(c, col):
            col.fail(rec, c)
    # truncations of the production-pair sentences of the live grammar: an error position in (nearly) every grammar
    # context, many of them with the same set of expected tokens but different acceptable continuations
    pstep = 4 if tier == 'quick' else 1
    pairs = grammar.get('mindsdb').pair_sentences()
    mine = [toks for i, (_, toks) in enumerate(pairs) if i % pstep == 0][k::nshards]
    for toks in mine:
        for cut in range(1, len(toks)):
            c = {'sql': ' '.join(toks[:cut]), 'origin': 'truncate-all:pairs'}
            for rec in judge(c, col):
                col.fail(rec, c)
    if k == 0:
        col.exhaustive_parts.append('%d trailers (terminators, blanks, comments) after the same-tail family and %s rejected '
                                    'corpus statement, whole and cut before the last token; %d statements rejected by a '
                                    'grammar action in 4 layouts; %d heads with non-ASCII characters x %d erroneous tails '
                                    'x 4 separators x 2 endings' % (len(TRAILS), 'every 3rd' if tier == 'quick' else 'every',
                                                                    len(_S['action_rejected']), len(WIDE_HEADS), len(WIDE_TAILS)))
        col.exhaustive_parts.append('%d statements rejected by a grammar action x %d following tokens; the rejected '
                                    'corpus statements and the same-tail family x 3 illegal endings'
                                    % (len(_S['action_rejected']), len(AFTER_REJECTED)))
        col.exhaustive_parts.append('every truncation at a token boundary of %s production-pair sentence of the '
                                    'mindsdb grammar' % ('every 4th' if tier == 'quick' else 'every'))
        col.exhaustive_parts.append('every truncation at a token boundary of %s corpus statement (original layout); '
                                    'all rejected corpus statements'
                                    % ('every 6th' if tier == 'quick' else 'every'))
    hyp.explore(col, cases(), judge, N[tier], seed)
