"""C09 — every emitted plan is a well-formed, forward-only dataflow program."""
import copy, json, re
from hypothesis import strategies as st

from vf import findings, hyp
from vf.gens import model, catalogs, c09_part, c09_hist
from vf.oracles.struct import walk
from vf.props.c02 import site_of

PROPERTY = 'C09'
RULE = ('cases = (statement text, catalog): SELECT / UNION / INSERT / UPDATE / DELETE / CREATE TABLE built (a) from text '
        'templates with tables, plain models, time-series models, aliased sub-selects and native queries in every join '
        'position (t JOIN m, m JOIN t, t JOIN m JOIN t2, t JOIN m JOIN m2, sub-select JOIN ts, ...), WHERE atoms per item '
        'kind (table filters, model parameters, scalar / IN sub-selects, time filters incl. LATEST / BETWEEN, group '
        'filters), USING partition_size / model options, wrapped in DML / nesting / CTE / set operation; (b) from the '
        'typed predictor-free SQL model over two integrations, plain or wrapped in DML; (c) DML without SELECT; (d) selects '
        'calling user-defined functions; catalog = '
        'integrations as names / dicts / mixed, optional api-class integration, project, predictor metadata as list or '
        'legacy dict, namespace via integration_name or predictor_namespace, default namespace absent / mindsdb / models\' '
        '/ int1, drawn time-series settings. Judged: plan_query raises only PlanningException / NotImplementedError; '
        'otherwise steps[i].step_num == i, sub-steps un-numbered or "<i>_<j>", every Result / Parameter(Result) / step '
        'object held by identity found by a reflection walk refers to an existing strictly earlier step (or earlier '
        'sibling inside a container), every step feeds the last one (for WITH statements: every table the statement reads, directly or through '
        'the CTEs it uses, is mentioned by a step feeding the last one -- checked for all statements), a DML '
        'statement ends with its DML step; plus a '
        'bounded-exhaustive part: every join shape over {table, model, ts-model, sub-select, native query, injected data} up to length 3 '
        '(thorough: 4) x 4 variants x 12 statement wraps on fixed catalogs; '
        '(e) per-model USING options (vf/gens/c09_part.py): table-prefixed `alias.partition_size=N` -- bounded-exhaustive: '
        'every shape over {table, model, sub-select} with >= 1 model up to length 3 (thorough 4; one length more bare) x per-model '
        'size in {none, 100, 50} x un-prefixed size {none, written last, written first} x 2 variants x {plain, insert, where-in}, '
        'prefix by alias or by (qualified) model name; and drawn: the text templates of (a) over model-heavy shapes with per-model '
        'sizes; (f) HISTORIES (vf/gens/c09_hist.py): several statements on ONE QueryPlanner object, each parsed afresh, as '
        'from_query(tree) or prepare_steps(tree) + execute_steps(values) once or twice -- bounded: all ordered pairs of 19 '
        'statements carrying the same IN / scalar sub-select in every position the planner plans itself (other integration, '
        'model / partitioned / time-series join, targets, DML, set operation, CTE body, sub-select in FROM, api integration, a '
        'table named like an earlier CTE) x 5 forms x fixed catalogs; drawn: 2..4 statements of (a)/(b)/(c)/(d)/(e) whose nested '
        'selects come from a pool drawn once per history, verbatim repeats, tables named like an earlier CTE, constants turned into '
        'placeholders; every plan a history emits is judged like a single plan (also after a refused statement). '
        'non-trivial = >= 3 steps, or a container step, or an exception path (history: a later plan with >= 2 steps); distinct '
        'by (catalog, text) / (catalog, operations)')
ASSUMPTIONS = ['"the last step produces the answer" is read as: the last step is the single sink of the reference graph '
               '(every other step is consumed, directly or transitively, by it) and a DML statement ends with its DML '
               'step; statements with a WITH clause are exempt from the sink clause (CTE bodies are planned eagerly and may '
               'legitimately stay unread) but not from the answer clause: every table the statement reads outside unused '
               'CTE bodies is mentioned (as a name part of some identifier) by the last step or a step feeding it',
               'references are collected by reflection over vars() of steps and embedded trees (vf.oracles.struct.walk), '
               'not by the library\'s query_traversal; a step object held by identity (DML steps) counts as a reference',
               'catalog encodings are those the repository\'s own planner tests use; legacy dotted metadata keys are '
               'not generated',
               '"every emitted plan" includes the plans a planner object emits after it has planned other statements '
               '(from_query repeatedly, a prepared statement executed repeatedly); every statement of a history is parsed '
               'afresh: a tree object that an earlier planning has rewritten in place (nested selects replaced by '
               'Parameter(Result)) is not a tree of the quantifier; column discovery (prepare_steps) is not planning: a '
               'statement whose prepare raises is not executed and the exception is not judged here (C12 does)',
               'the values of USING options are not judged (partition_size=0 / \'abc\' are copied into the map-reduce '
               'step as they are: the plan is well-formed)']
# floors hold for VERIF_SHARDS >= 4 (the random part scales with the number of shards, the exhaustive part does not)
FLOORS = {'quick': {'__nontrivial__': 3000, 'planned': 2500, 'refused': 1400, 'src:fixed': 13000, 'src:mjoin': 840,
                    'src:free': 250, 'src:free-dml': 230, 'src:plain-dml': 120,
                    'plan:plan:partitioned': 400, 'plan:ref:sub-step': 400, 'plan:plan:ts': 160,
                    'plan:plan:ts-grouped': 130, 'plan:container:MultipleSteps': 20, 'plan:ref:named': 160,
                    'plan:ref:parameter': 700, 'plan:ref:held-step': 790, 'steps>=3': 1900,
                    'stmt:Insert': 790, 'stmt:Update': 270, 'stmt:Delete': 280, 'stmt:CreateTable': 500,
                    'stmt:Union': 240, 'wrap:nested': 260, 'wrap:cte': 220, 'tag:using:partition_size': 280,
                    'cat:integrations:dicts': 560, 'cat:integrations:mixed': 270, 'cat:metadata:dict': 370,
                    'cat:api:int2': 290, 'cat:default-ns:none': 330, 'cat:ns-via:predictor_namespace': 460,
                    # per-model USING options: bounded list (deterministic counts) and drawn statements (rnd:)
                    'src:fixed-part': 3500, 'tag:using:pp:prefix:name': 110, 'tag:using:pp:adjacent-models-differ': 1650,
                    'tag:using:pp:sizes-differ': 840, 'src:part': 110, 'rnd:tag:using:pp:adjacent-models-differ': 45,
                    'rnd:tag:using:pp:sizes-differ': 25, 'rnd:tag:using:pp:some-models-without': 40,
                    'rnd:tag:using:pp:global+scoped': 27,
                    # histories on one planner: bounded list and drawn histories (rnd:)
                    'src:fixed-hist': 2500, 'hist:form:plan;plan': 700, 'hist:form:prep-exec;prep-exec-exec': 700,
                    'hist:form:plan;prep-exec-exec': 350, 'hist:form:prep-exec;plan': 350, 'hist:form:plan;plan;plan': 350,
                    'hist:later:shared-nested-select+ref:parameter': 1700, 'hist:re-exec': 1000,
                    'src:hist': 240, 'rnd:hist:plans>=2': 190, 'rnd:hist:plans>=3': 95,
                    'rnd:hist:later:shared-nested-select+ref:parameter': 35, 'rnd:hist:re-exec': 45,
                    'rnd:hist:op:exec': 95, 'rnd:hist:plan-after-refusal': 35, 'rnd:hist:later:stmt-planned-before': 70,
                    'rnd:hist:later:plan:partitioned': 75, 'rnd:hist:later:plan:ts': 6, 'rnd:hist:later:cte': 14,
                    'rnd:hist:later:reads-table-named-like-earlier-cte': 2},
          'thorough': {'__nontrivial__': 60000, 'planned': 40000, 'refused': 20000, 'src:fixed': 140000,
                       'plan:plan:partitioned': 6000, 'plan:plan:ts': 2500, 'plan:plan:ts-grouped': 2000,
                       'plan:container:MultipleSteps': 300, 'plan:ref:parameter': 10000, 'plan:ref:held-step': 12000,
                       'stmt:Insert': 12000, 'stmt:Update': 4000, 'stmt:Delete': 4000, 'stmt:CreateTable': 8000,
                       'cat:integrations:dicts': 8000, 'cat:metadata:dict': 5500,
                       'src:fixed-part': 20000, 'tag:using:pp:prefix:name': 650, 'tag:using:pp:adjacent-models-differ': 11000,
                       'src:part': 1100, 'rnd:tag:using:pp:adjacent-models-differ': 450, 'rnd:tag:using:pp:sizes-differ': 250,
                       'src:fixed-hist': 3600, 'hist:later:shared-nested-select+ref:parameter': 1800,
                       'src:hist': 2400, 'rnd:hist:plans>=2': 1900, 'rnd:hist:plans>=3': 950,
                       'rnd:hist:later:shared-nested-select+ref:parameter': 350, 'rnd:hist:re-exec': 450,
                       'rnd:hist:plan-after-refusal': 350, 'rnd:hist:later:stmt-planned-before': 700,
                       'rnd:hist:later:plan:partitioned': 750, 'rnd:hist:later:plan:ts': 60, 'rnd:hist:later:cte': 140,
                       'rnd:hist:later:reads-table-named-like-earlier-cte': 20}}
N = {'quick': 1200, 'thorough': 20000}

KINDS = ('internal-error', 'numbering', 'forward-ref', 'dangling-ref', 'bad-sub-ref', 'foreign-step', 'bad-ref',
         'named-ref', 'dangling-step', 'wrong-last-step', 'empty-plan')
DML_LAST = {'Insert': ('InsertToTable',), 'Update': ('UpdateToTable',), 'Delete': ('DeleteStep',),
            'CreateTable': ('SaveToTable', 'CreateTableStep')}


def prepare(tier):
    import mindsdb_sql.planner  # noqa
    _selftest()


def _selftest():
    """Unit self-test of the oracle on hand-built plans (a failure is a harness error, never a violation)."""
    from mindsdb_sql.parser.ast import Identifier, Join, Select, Star, BinaryOperation, Parameter
    from mindsdb_sql.planner.query_plan import QueryPlan
    from mindsdb_sql.planner import steps as S
    from mindsdb_sql.planner.step_result import Result

    def fetch():
        return S.FetchDataframeStep(integration='int1', query=Select(targets=[Star()], from_table=Identifier('t')))

    def plan_of(steps):
        # numbered here, not by QueryPlan.add_step: the self-test must not depend on the code under test
        p = QueryPlan()
        p.steps = list(steps)
        for i, st_ in enumerate(p.steps):
            st_.step_num = i
        return p

    def kinds(steps, stmt='Select'):
        return sorted({k for k, _, _ in check_plan(plan_of(steps), stmt)[0]})

    def join(l, r, names=None):
        q = Join(left=Identifier(names[0] if names else 'tab1'), right=Identifier(names[1] if names else 'tab2'),
                 join_type='join')
        return S.JoinStep(left=l, right=r, query=q)

    def part(values, subs, i):
        for j, ss in enumerate(subs):
            ss.step_num = f'{i}_{j}'
        return S.MapReduceStep(values=values, step=subs, reduce='union', partition=10)

    good = [fetch(), fetch(), join(Result(0), Result(1))]
    expect = [
        (good, 'Select', []),
        ([fetch(), part(Result(0), [S.ApplyPredictorStep('p', Identifier('m'), Result(0)),
                                    join(Result(0), Result('1_0'))], 1)], 'Select', []),
        ([fetch(), S.MapReduceStep(values=Result(0), step=S.MultipleSteps(steps=[fetch(), fetch()], reduce='union')),
          S.ApplyTimeseriesPredictorStep('p', Identifier('m'), Result(1)),
          join(Result(1), Result(2), ('result_1', 'result_2'))], 'Select', []),
        ([fetch(), fetch(), join(Result(0), Result(5))], 'Select', ['dangling-ref', 'dangling-step']),
        ([fetch(), join(Result(0), Result(2)), fetch()], 'Select', ['dangling-step', 'forward-ref']),
        ([fetch(), fetch()], 'Select', ['dangling-step']),
        ([fetch(), join(Result(0), Result(0), ('result_0', 'result_4'))], 'Select', ['named-ref']),
        ([fetch(), S.InsertToTable(table=Identifier('t'), dataframe=fetch())], 'Insert', ['dangling-step', 'foreign-step']),
        ([fetch(), S.SubSelectStep(Select(targets=[Star()]), Result('x'))], 'Select', ['bad-ref', 'dangling-step']),
        ([fetch(), S.SubSelectStep(Select(targets=[Star()]), Result('0_1'))], 'Select', ['bad-sub-ref', 'dangling-step']),
        (good, 'Insert', ['wrong-last-step']),
        ([], 'Select', ['empty-plan']),
        ([fetch(), part(Result(0), [join(Result(0), Result('1_1')), fetch()], 1)], 'Select', ['forward-ref']),
        ([fetch(), part(Result(0), [S.ApplyPredictorStep('p', Identifier('m'), Result(0)), join(Result(0), Result('1_0'))], 1),
          part(Result('1_1'), [S.ApplyPredictorStep('p', Identifier('m2'), Result('1_1')),
                               join(Result(1), Result('2_0'))], 2)], 'Select', ['bad-sub-ref']),
        ([S.FetchDataframeStep(integration='i', query=Select(
            targets=[Star()], from_table=Identifier('t'),
            where=BinaryOperation('in', args=[Identifier('a'), Parameter(Result(1))]))), fetch()], 'Select',
         ['dangling-step', 'forward-ref']),
    ]
    for steps, stmt, want in expect:
        got = kinds(steps, stmt)
        if got != want:
            raise AssertionError(f'C09 oracle self-test: {[type(x).__name__ for x in steps]} / {stmt}: {got} != {want}')
    p = plan_of([fetch(), fetch()])
    p.steps[1].step_num = 2
    if 'numbering' not in {k for k, _, _ in check_plan(p, 'Select')[0]}:
        raise AssertionError('C09 oracle self-test: numbering')


# ---------------------------------------------------------------------------------------------------- oracle

def field_refs(value, PlanStep, Result):
    """References below one field value, by reflection: ('result', step_num) for every Result object (wherever it
    sits: field, list, dict value, Parameter inside an embedded tree) and ('step', obj) for a step object held by
    identity, which is a reference and is not descended into."""
    seen = set()
    out = []
    for o in walk(value, seen):
        if isinstance(o, PlanStep):
            out.append(('step', o))
            for x in vars(o).values():          # prune: the referenced step's own fields are not ours
                seen.add(id(x))
        elif isinstance(o, Result):
            out.append(('result', o.step_num))
    return out


def sub_steps(step):
    n = type(step).__name__
    if n == 'MapReduceStep':
        s = step.step
        return 'step', (list(s) if isinstance(s, (list, tuple)) else [s])
    if n == 'MultipleSteps':
        return 'steps', list(step.steps or [])
    return None, []


def check_plan(plan, stmt_class, exempt_sink=False, needed_tables=()):
    """-> (violations [(kind, site, detail)], info {'edges', 'features'})"""
    from mindsdb_sql.planner.steps import PlanStep
    from mindsdb_sql.planner.step_result import Result
    steps = list(plan.steps)
    n = len(steps)
    viol = []
    feats = set()
    if n == 0:
        return [('empty-plan', stmt_class, 'the plan has no steps')], {'features': [], 'edges': {}}
    index_of = {id(s): i for i, s in enumerate(steps)}
    sub_owner = {}
    for i, s in enumerate(steps):
        stack = [s]
        while stack:
            c = stack.pop()
            for ss in sub_steps(c)[1]:
                sub_owner[id(ss)] = i
                stack.append(ss)
    edges = {i: set() for i in range(n)}

    def visit(step, top, sub_pos, nsib, path):
        cname = type(step).__name__
        cfield, subs = sub_steps(step)
        for fname, v in vars(step).items():
            if fname in ('step_num', 'result_data') or fname == cfield:
                continue
            where = f'{path}.{fname}'
            for kind, tgt in field_refs(v, PlanStep, Result):
                if kind == 'step':
                    feats.add('ref:held-step')
                    m = index_of.get(id(tgt))
                    if m is None:
                        if id(tgt) in sub_owner:
                            viol.append(('bad-sub-ref', where, f'step {top} holds a sub-step of container '
                                         f'{sub_owner[id(tgt)]} ({type(tgt).__name__})'))
                        else:
                            viol.append(('foreign-step', where, f'step {top} holds a {type(tgt).__name__} that is '
                                         f'not a step of this plan'))
                        continue
                    ref = m
                else:
                    ref = tgt
                if type(ref) is int:
                    if not 0 <= ref < n:
                        viol.append(('dangling-ref', where, f'step {top} refers to result {ref}; the plan has {n} steps'))
                        continue
                    edges[top].add(ref)
                    if ref >= top and sub_pos is not None and isinstance(getattr(steps[top], 'step', None), list):
                        feats.add('mech:open-partition')   # a partition (map-reduce over a step list) reads ahead
                    if ref >= top:
                        viol.append(('forward-ref', where, f'step {top}{"" if sub_pos is None else " sub-step %d" % sub_pos}'
                                     f' ({cname}) consumes result {ref} ({type(steps[ref]).__name__})'))
                elif isinstance(ref, str) and re.fullmatch(r'\d+_\d+', ref):
                    feats.add('ref:sub-step')
                    a, b = (int(x) for x in ref.split('_'))
                    if sub_pos is None or a != top:
                        viol.append(('bad-sub-ref', where, f'step {top} refers to sub-step result {ref!r} from outside '
                                     f'its container'))
                    elif b >= nsib:
                        viol.append(('dangling-ref', where, f'sub-step {sub_pos} of step {top} refers to {ref!r}; the '
                                     f'container has {nsib} sub-steps'))
                    elif b >= sub_pos:
                        viol.append(('forward-ref', where, f'sub-step {sub_pos} of step {top} consumes sibling {ref!r}'))
                else:
                    viol.append(('bad-ref', where, f'step {top}: Result({ref!r}) names no step'))
        if cname == 'JoinStep':
            q = getattr(step, 'query', None)
            for side in ('left', 'right'):
                ident = getattr(q, side, None)
                parts = getattr(ident, 'parts', None)
                if parts and len(parts) == 1 and isinstance(parts[0], str):
                    mm = re.fullmatch(r'result_(\d+)', parts[0])
                    if mm:
                        feats.add('ref:named')
                        r = int(mm.group(1))
                        if not (0 <= r < n and r < top):
                            viol.append(('named-ref', f'{path}.query.{side}', f'step {top} joins {parts[0]!r}'))
        for j, ss in enumerate(subs):
            feats.add('container:' + cname)
            num = getattr(ss, 'step_num', None)
            if not (num is None or num == f'{top}_{j}'):
                viol.append(('numbering', f'{path}/{type(ss).__name__}', f'sub-step {j} of step {top} is numbered {num!r}'))
            if sub_pos is None:
                visit(ss, top, j, len(subs), f'{path}/{type(ss).__name__}')
            else:       # a container inside a container: its members stand at the container's own position
                visit(ss, top, sub_pos, nsib, f'{path}/{type(ss).__name__}')

    for i, s in enumerate(steps):
        if not (type(s.step_num) is int and s.step_num == i):
            viol.append(('numbering', type(s).__name__, f'steps[{i}].step_num == {s.step_num!r}'))
        visit(s, i, None, 0, type(s).__name__)

    # single sink: every step feeds the last one
    reach, stack = {n - 1}, [n - 1]
    while stack:
        for m in edges[stack.pop()]:
            if m not in reach:
                reach.add(m)
                stack.append(m)
    dangling = [i for i in range(n - 1) if i not in reach]
    if needed_tables:
        # the last step is the answer: every table the statement reads (directly or through the CTEs it uses -- a
        #  WITH statement may leave the body of an unused CTE unread) is mentioned by the last step or a step feeding it
        mentioned = set()
        for v in walk([vars(steps[i]) for i in sorted(reach)]):
            if type(v).__name__ == 'Identifier':
                mentioned.update(str(p_).lower() for p_ in v.parts if isinstance(p_, str))
        missing = sorted(t for t in needed_tables if t not in mentioned)
        if missing:
            viol.append(('last-step-not-the-answer', f'{type(steps[-1]).__name__}',
                         f'the main query reads {missing}, which no step feeding the last step {n - 1} '
                         f'({type(steps[-1]).__name__}) mentions; unread steps {dangling}; '
                         f'sequence {[type(s).__name__ for s in steps]}'))
    if dangling and not exempt_sink:
        viol.append(('dangling-step', f'{type(steps[dangling[0]]).__name__}->{type(steps[-1]).__name__}',
                     f'steps {dangling} do not feed the last step {n - 1} ({type(steps[-1]).__name__}); '
                     f'sequence {[type(s).__name__ for s in steps]}'))
    want = DML_LAST.get(stmt_class)
    if want and type(steps[-1]).__name__ not in want:
        viol.append(('wrong-last-step', f'{stmt_class}->{type(steps[-1]).__name__}',
                     f'a {stmt_class} statement ends with {type(steps[-1]).__name__}'))
    if not want and type(steps[-1]).__name__ in sum(DML_LAST.values(), ()):
        viol.append(('wrong-last-step', f'{stmt_class}->{type(steps[-1]).__name__}',
                     f'a {stmt_class} statement ends with {type(steps[-1]).__name__}'))
    # plan features (matchers of known findings are written over these, not over the text)
    for s in steps:
        cn = type(s).__name__
        if cn == 'MapReduceStep':
            feats.add('plan:partitioned' if isinstance(s.step, list) else 'plan:ts-grouped')
        if cn == 'ApplyTimeseriesPredictorStep':
            feats.add('plan:ts')
        if cn in ('ApplyPredictorStep', 'ApplyPredictorRowStep'):
            feats.add('plan:model')
    for v in walk([vars(s) for s in steps]):
        if type(v).__name__ == 'Parameter' and isinstance(getattr(v, 'value', None), Result):
            feats.add('ref:parameter')
            break
    return viol, {'features': sorted(feats), 'edges': edges}


def main_query_tables(tree):
    """lower-cased last name parts of the tables the statement reads outside its WITH clauses, plus those of the CTE
    bodies it uses (transitively); CTE bodies nobody uses do not count"""
    from vf.oracles.struct import _is_node
    bodies = {}
    for n in walk(tree):
        if type(n).__name__ == 'CommonTableExpression':
            bodies.setdefault(str(n.name.parts[-1]), n.query)
    fields = {'Select': ('from_table',), 'Join': ('left', 'right'), 'Insert': ('table',), 'Update': ('table',),
              'Delete': ('table',)}
    out, used, todo, seen = set(), set(), [tree], set()

    def go(o):
        if id(o) in seen:
            return
        if isinstance(o, (list, tuple, set, frozenset)):
            seen.add(id(o))
            for x in o:
                go(x)
        elif isinstance(o, dict):
            seen.add(id(o))
            for x in o.values():
                go(x)
        elif _is_node(o):
            seen.add(id(o))
            cn = type(o).__name__
            if cn == 'CommonTableExpression':
                return                      # visited only when the name is used
            for f in fields.get(cn, ()):
                v = getattr(o, f, None)
                if type(v).__name__ == 'Identifier' and all(isinstance(p_, str) for p_ in v.parts):
                    name = str(v.parts[-1])
                    if len(v.parts) == 1 and name in bodies:
                        if name not in used:
                            used.add(name)
                            todo.append(bodies[name])
                    else:
                        out.add(name.lower())
            for v in vars(o).values():
                go(v)

    while todo:
        go(todo.pop())
    return sorted(out)


def has_cte(tree):
    """True when the statement carries a WITH clause anywhere (found by reflection).  CTE bodies are planned eagerly
    as steps of their own; whether anything reads them is decided later (an unused CTE, or a main query that is
    pushed down whole together with its WITH clause, leaves them unconsumed) -- such plans still end with the step
    that produces the answer, so the sink clause is not applied to them."""
    for n in walk(tree):
        if type(n).__name__ == 'Select' and getattr(n, 'cte', None):
            return True
    return False


def tree_features(tree, kw):
    """Coarse tags read off the parsed statement by reflection (they are part of a failure's signature, so only
    the shapes that known findings are about are tagged): per SELECT the left-deep FROM sequence over
    T(able) M(odel) X(time-series model) S(ub-select) N(ative query) D(ata injected as ast.Data)."""
    models = {}
    md = kw.get('predictor_metadata')
    if isinstance(md, list):
        for p in md:
            models[str(p.get('name', '')).lower()] = bool(p.get('timeseries'))
    elif isinstance(md, dict):
        for name, p in md.items():
            models[name.split('.')[-1].lower()] = bool(p.get('timeseries'))

    def kind(node):
        cn = type(node).__name__
        if cn == 'Identifier':
            parts = [str(x) for x in node.parts]
            if len(parts) > 1 and parts[-1].isdigit():
                parts = parts[:-1]
            nm = parts[-1].lower() if parts else ''
            if nm in models:
                return 'X' if models[nm] else 'M'
            return 'T'
        if cn in ('Select', 'Union', 'Intersect', 'Except'):
            return 'S'
        if cn == 'NativeQuery':
            return 'N'
        if cn == 'Data':
            return 'D'
        return '?'

    def seq(node):
        if type(node).__name__ == 'Join':
            return seq(node.left) + seq(node.right)
        return [kind(node)]

    feats = set()
    for n in walk(tree):
        if type(n).__name__ != 'Select':
            continue
        if n.from_table is not None:
            sq = seq(n.from_table)
            if len(sq) >= 3 and sq[-1] == 'X':
                feats.add('join:ts-model-joined-to-a-join')
            if sq == ['X', 'S']:
                feats.add('join:ts-model-left-of-subselect')
            if sorted(sq) == ['D', 'X']:
                feats.add('join:ts-model-with-injected-data')
            if 'X' in sq and len(sq) > 1 and any(type(m).__name__ == 'Select' for m in walk(list(n.targets or []))):
                feats.add('join:ts-model-with-target-subselect')
        if n.where is not None:
            # top-level conjuncts `col = ...` naming the same column twice (a model argument given twice: the later wins)
            eq, stack = [], [n.where]
            while stack:
                w = stack.pop()
                if type(w).__name__ == 'BinaryOperation' and str(w.op).lower() == 'and':
                    stack.extend(w.args)
                elif type(w).__name__ == 'BinaryOperation' and w.op == '=' and type(w.args[0]).__name__ == 'Identifier':
                    eq.append(str(w.args[0]).lower())
            if len(eq) != len(set(eq)):
                feats.add('where:same-column-equated-twice')
        if getattr(n, 'cte', None):
            feats.add('has:cte')
            for m in walk([n.cte, n.targets, n.from_table, n.where]):
                if type(m).__name__ in ('NativeQuery', 'Data'):
                    feats.add('cte:native-query-or-data-inside')
                if type(m).__name__ == 'Select' and m.from_table is not None and set(seq(m.from_table)) & {'M', 'X'}:
                    feats.add('cte:model-inside')
    return sorted(feats)


def case_features(tree, kw, stmt_class):
    return ['stmt:' + stmt_class] + tree_features(tree, kw)


def judge(case, col):
    from mindsdb_sql import parse_sql
    from mindsdb_sql.planner import plan_query
    from mindsdb_sql.exceptions import PlanningException
    if 'ops' in case:
        return judge_history(case, col)
    sql, kw = case['sql'], case['catalog']
    meta = case.get('meta') or {}
    cfg = {'src': case.get('src', '?')}
    try:
        tree = parse_sql(sql, 'mindsdb')
    except Exception as e:
        col.excluded('not parsed: ' + site_of(e))
        col.cls('not-parsed:' + case.get('src', '?'))
        return []
    injected = catalogs.inject_data(tree) if catalogs.DATA_TABLE in sql else 0
    stmt = type(tree).__name__
    classes = ['src:' + case.get('src', '?'), 'stmt:' + stmt] + ['cat:' + t for t in meta.get('cat_tags', [])]
    if meta.get('shape') and case.get('src') == 'mjoin':
        classes.append('shape:' + meta['shape'] if len(meta['shape'].split()) <= 3 and 'shape:random' not in
                       meta.get('tags', []) else 'shape:other')
    if meta.get('wrap'):
        classes.append('wrap:' + meta['wrap'])
    classes += ['tag:' + t for t in meta.get('tags', []) if t.startswith(('using', 'ts:', 'where:', 'target:sub'))]
    if injected:
        classes.append('injected-data')
    if case.get('src') == 'part':
        classes += ['rnd:' + c for c in classes if c.startswith('tag:using:pp')]
    cf = case_features(tree, kw, stmt)
    cte = has_cte(tree)
    needed = main_query_tables(tree)      # before planning: the planner rewrites the tree
    key = (json.dumps(kw, sort_keys=True), sql)
    try:
        plan = plan_query(tree, **copy.deepcopy(kw))
    except (PlanningException, NotImplementedError) as e:
        classes += ['refused', 'refused:' + type(e).__name__]
        col.case(key, True, classes, {'sql': sql, 'refused': f'{type(e).__name__}: {str(e)[:80]}'})
        return []
    except Exception as e:
        classes.append('internal-error')
        col.case(key, True, classes)
        return [findings.record('internal-error', site_of(e), cf, cfg, f'{type(e).__name__}: {str(e)[:300]}', sql)]
    exempt = cte
    viol, info = check_plan(plan, stmt, exempt_sink=exempt, needed_tables=needed)
    pf = info['features']
    nsteps = len(plan.steps)
    classes += ['planned'] + ['plan:' + f for f in pf]
    if exempt:
        classes.append('sink-clause-exempt:cte')
    if nsteps >= 3:
        classes.append('steps>=3')
    nontrivial = nsteps >= 3 or any(f.startswith('container:') for f in pf)
    col.case(key, nontrivial, classes, {'sql': sql, 'steps': [type(s).__name__ for s in plan.steps],
                                        'catalog': meta.get('cat_tags')})
    out = []
    seen = set()
    for kind, site, detail in viol:
        if (kind, site) in seen:
            continue
        seen.add((kind, site))
        out.append(findings.record(kind, site, sorted(set(cf) | set(pf)), cfg, detail, sql))
    return out


def nested_selects(tree):
    """structural images (by reflection) of the SELECT / set-operation nodes below the root of a statement"""
    from vf.oracles.struct import struct
    out = set()
    for n in walk(tree):
        if n is not tree and type(n).__name__ in ('Select', 'Union', 'Intersect', 'Except'):
            out.add(hash(struct(n)))
    return out


def judge_history(case, col):
    """Several statements on ONE QueryPlanner (from_query on freshly parsed trees; prepare_steps + execute_steps, also
    repeatedly): every plan the planner emits is judged by check_plan exactly as the plan of a single statement."""
    import types
    from mindsdb_sql import parse_sql
    from mindsdb_sql.planner.query_planner import QueryPlanner
    from mindsdb_sql.exceptions import PlanningException
    kw, ops = case['catalog'], case['ops']
    meta = case.get('meta') or {}
    src = case.get('src', 'hist')
    cfg = {'src': src}
    classes = {'src:' + src} | {'cat:' + t for t in meta.get('cat_tags', [])} | set(meta.get('tags', []))
    if meta.get('form'):
        classes.add('hist:form:' + meta['form'])
    key = (json.dumps(kw, sort_keys=True), json.dumps(ops, sort_keys=True))
    out, seen_sig = [], set()
    planner = QueryPlanner(**copy.deepcopy(kw))
    cur = None                   # statement in hand: {'sql', 'stmt', 'cf', 'cte', 'needed', 'subs', 'execs'}
    prepared = False
    nplans = 0                   # plans emitted so far
    earlier_subs, earlier_ctes, earlier_sql = set(), set(), set()
    refused_before = False
    nontrivial = False
    trail, sample_steps = [], []

    def fail(kind, site, feats, detail, sql):
        if (kind, site) in seen_sig:
            return
        seen_sig.add((kind, site))
        out.append(findings.record(kind, site, sorted(feats), cfg,
                                   f'plan #{nplans + 1} of one planner, after [{"; ".join(trail[:-1])[:300]}]: {detail}', sql))

    def remember(c):
        earlier_subs.update(c['subs'])
        earlier_ctes.update(c['ctes'])
        earlier_sql.add(c['sql'])

    for op in ops:
        kind = op['op']
        if kind in ('plan', 'prepare'):
            cur, prepared = None, False
            sql = op['sql']
            trail.append(f'{kind} {sql[:60]}')
            try:
                tree = parse_sql(sql, 'mindsdb')
            except Exception as e:
                col.excluded('not parsed: ' + site_of(e))
                classes.add('hist:not-parsed')
                continue
            if catalogs.DATA_TABLE in sql:
                catalogs.inject_data(tree)
            stmt = type(tree).__name__
            ctes = {str(n.name.parts[-1]).lower() for n in walk(tree) if type(n).__name__ == 'CommonTableExpression'}
            cur = {'sql': sql, 'stmt': stmt, 'cf': case_features(tree, kw, stmt), 'cte': has_cte(tree),
                   'needed': main_query_tables(tree), 'subs': nested_selects(tree), 'ctes': ctes, 'execs': 0}
            if kind == 'prepare':
                classes.add('hist:op:prepare')
                try:
                    c09_hist.drive_prepare(planner, tree)
                    prepared = True
                except Exception as e:
                    # column discovery is not planning: a statement that cannot be prepared is not executed
                    classes.add('hist:prepare-failed:' + type(e).__name__)
                    cur = None
                continue
            emit = lambda: planner.from_query(tree)
            opf = 'hist:op:plan'
        else:
            if cur is None or not prepared:
                continue
            trail.append(f'exec {op["v"]!r}')
            values = list(op['v'])
            emit = lambda: types.SimpleNamespace(steps=list(planner.execute_steps(values)))
            opf = 'hist:op:exec'
            cur['execs'] += 1
        classes.add(opf)
        sql = cur['sql']
        hf = {opf}
        if nplans:
            hf.add('hist:later-plan')
        if cur['execs'] > 1:
            hf.add('hist:re-exec')
            classes.add('hist:re-exec')
        shared = bool(cur['subs'] & earlier_subs)
        if nplans and refused_before:
            classes.add('hist:plan-after-refusal')
        try:
            plan = emit()
        except (PlanningException, NotImplementedError) as e:
            classes.add('refused')
            refused_before = True
            remember(cur)         # a statement refused half-way has been seen by the planner too
            continue
        except Exception as e:
            classes.add('internal-error')
            fail('internal-error', site_of(e), set(cur['cf']) | hf, f'{type(e).__name__}: {str(e)[:300]}', sql)
            remember(cur)
            continue
        viol, info = check_plan(plan, cur['stmt'], exempt_sink=cur['cte'], needed_tables=cur['needed'])
        pf = info['features']
        classes.add('planned')
        classes.update('plan:' + f for f in pf)
        if nplans:
            classes.add('hist:plans>=2')
            classes.update('hist:later:' + f for f in pf if f.startswith(('ref:', 'plan:', 'container:')))
            if sql in earlier_sql:
                classes.add('hist:later:stmt-planned-before')
            if shared:
                classes.add('hist:later:shared-nested-select')
                if 'ref:parameter' in pf:
                    classes.add('hist:later:shared-nested-select+ref:parameter')
            if cur['cte']:
                classes.add('hist:later:cte')
            if earlier_ctes & set(cur['needed']):
                classes.add('hist:later:reads-table-named-like-earlier-cte')
            if len(plan.steps) >= 2:
                nontrivial = True
        if nplans >= 2:
            classes.add('hist:plans>=3')
        for k_, site, detail in viol:
            fail(k_, site, set(cur['cf']) | set(pf) | hf, detail, sql)
        if len(sample_steps) < 4:
            sample_steps.append([type(s_).__name__ for s_ in plan.steps])
        nplans += 1
        remember(cur)
    if src == 'hist':
        # the drawn histories are counted apart from the bounded list (vacuity guards of the random part)
        classes |= {'rnd:' + c for c in classes if c.startswith('hist:')}
    col.case(key, nontrivial, sorted(classes), {'ops': [dict(o, sql=o['sql'][:200]) if 'sql' in o else o for o in ops],
                                                'plans': sample_steps})
    return out



# ---------------------------------------------------------------------------------------------------- cases

@st.composite
def cases(draw):
    src = draw(st.sampled_from(['mjoin'] * 12 + ['free'] * 4 + ['free-dml'] * 4 + ['plain-dml'] * 2 + ['udf']
                               + ['part'] * 3 + ['hist'] * 6))
    cat = draw(catalogs.catalogs(with_models=(src in ('mjoin', 'part', 'hist') or draw(st.booleans()))))
    if src == 'hist':
        h = draw(c09_hist.histories(cat))
        return {'src': 'hist', 'ops': h['ops'], 'catalog': cat['kwargs'], 'meta': h['meta']}
    if src == 'part':
        q = draw(c09_part.part_queries(cat))
        sql, meta = q['sql'], q['meta']
    elif src == 'mjoin':
        q = draw(catalogs.model_queries(cat))
        sql, meta = q['sql'], q['meta']
    elif src == 'udf':
        sql = draw(catalogs.udf_queries(cat))
        meta = {'tags': ['udf'], 'wrap': 'plain'}
        if draw(st.booleans()):
            sql, k = draw(catalogs.dml_wrap(cat, sql))
            meta['wrap'] = k
    elif src == 'plain-dml':
        sql, k = draw(catalogs.plain_dml(cat))
        meta = {'tags': [], 'wrap': k}
    else:
        q = draw(model.queries(catalogs.model_cfg(cat, draw)))
        sql = q['sql']
        meta = {'tags': q['meta']['tags']}
        if src == 'free-dml':
            sql, k = draw(catalogs.dml_wrap(cat, sql))
            meta['wrap'] = k
    meta['cat_tags'] = cat['tags']
    return {'src': src, 'sql': sql, 'catalog': cat['kwargs'], 'meta': meta}


def fixed_cases(tier):
    """Bounded-exhaustive part: every join shape over {T, M, X, S, N, D} up to length 3 (thorough: 4) x 4 variants
    (bare / WHERE+ON+LIMIT, each with and without USING partition_size) x every wrap, on two fixed catalogs."""
    max_len = 3 if tier == 'quick' else 4
    for cname in sorted(catalogs.FIXED_CATALOGS):
        kw = catalogs.FIXED_CATALOGS[cname]
        wraps = catalogs.ALL_WRAPS if (cname == 'names-list' or tier != 'quick') else ['plain', 'insert']
        for shape in catalogs.all_shapes(max_len):
            for v in catalogs.FIXED_VARIANTS:
                for w in wraps:
                    yield {'src': 'fixed', 'sql': catalogs.fixed_statement(shape, v, w), 'catalog': kw,
                           'meta': {'shape': shape, 'wrap': w, 'tags': [], 'cat_tags': ['fixed:' + cname]}}


def run_shard(col, k, nshards, tier, seed):
    import itertools
    for i, case in enumerate(itertools.chain(fixed_cases(tier), c09_part.fixed_part_cases(tier),
                                             c09_hist.fixed_histories(tier))):
        if i % nshards == k:
            for rec in judge(case, col):
                col.fail(rec, case)
    if k == 0:
        col.exhaustive_parts.append('join shapes over {table, model, ts-model, sub-select, native query, injected data} up to length '
                                    f'{3 if tier == "quick" else 4} x {len(catalogs.FIXED_VARIANTS)} variants x '
                                    f'{len(catalogs.ALL_WRAPS)} statement wraps x fixed catalogs')
        col.exhaustive_parts.append('per-model USING options: join shapes over {table, model, sub-select} with >= 1 model up to '
                                    f'length {3 if tier == "quick" else 4} x per-model partition_size in {{none, 100, 50}} x '
                                    'un-prefixed partition_size {none, last, first} x 2 variants x {plain, insert, where-in}; '
                                    f'length {4 if tier == "quick" else 5}: bare / plain / no un-prefixed size')
        col.exhaustive_parts.append(f'histories on one planner: all ordered pairs of {len(c09_hist.TEMPLATES)} statements sharing '
                                    f'one IN and one scalar sub-select x {len(c09_hist.FORMS)} forms (plan / prepare+execute, '
                                    'executed twice) x fixed catalogs')
    hyp.explore(col, cases(), judge, N[tier], seed, shrink_key=lambda r: (r['kind'], r['site'][:40]))
