"""C06 — SQL rendered through SQLAlchemy means the same as the parsed statement (differential execution on sqlite3)."""
import sqlite3
from hypothesis import strategies as st

from vf import findings, hyp
from vf.gens import model, c06_shapes
from vf.oracles import engine
from vf.props.c02 import site_of

PROPERTY = 'C06'
RULE = ('cases = (statement text from the typed SQL model over schema t1..t4, table contents over tiny domains with '
        'NULLs/duplicates/empty tables, target dialect in {sqlite, mysql, postgresql}; statements that put || next to arithmetic only for '
        'sqlite, the rank of || being engine-specific); the original text and the '
        'rendering of its parsed tree are executed on two identical sqlite3 databases and compared (rows order-aware '
        'for queries, full table contents for DML/DDL); non-trivial = the query returns >= 1 row or the DML changes '
        'a table; distinct by (target, statement text, data).  Second stream (vf/gens/c06_shapes.py): dedicated shapes '
        'for operand typing and naming done by the renderer ("+" next to a string-typed operand, boolean-typed operands '
        'of AND/OR/NOT/ON/HAVING, "->", un-aliased columns whose added label is the name of an ORDER BY column, EXISTS '
        'aliases, CREATE TABLE IF NOT EXISTS over an existing table, names anon_N, exponent notation) and two spellings '
        'SQLite does not read, judged against the equivalent SQLite spelling (WITH in front of a parenthesised set '
        'operation = the same without the parentheses; OFFSET n without LIMIT = LIMIT -1 OFFSET n).  Third, exhaustive: '
        'x OP1 y OP2 z without parentheses for every ordered pair of operators, target sqlite (operator rank is '
        'engine-specific), over all pairs of column values.  Fourth, exhaustive: every sort direction {none, ASC, DESC} x '
        '{no modifier, NULLS FIRST, NULLS LAST} at every place an ORDER BY key can stand (alias / source column / expression '
        '/ ordinal, first / later key, with LIMIT / OFFSET, DISTINCT, aggregate, inside a derived table / IN sub-query / CTE '
        'with LIMIT, in OVER (...) with and without PARTITION BY; two keys: all 81 pairs) x 3 targets x 2 tables with NULLs '
        'and duplicates.  Fifth stream (c06_shapes.reuse): ONE renderer object renders 1-3 earlier statements (`history`, '
        'default fallback; statements the renderer refuses at every operand position of plain and nested set operations, '
        'refused statements, rendered statements of every kind) and then the judged statement (WITH inside an IN / EXISTS / '
        'scalar / derived-table / join-operand / DML sub-query or inside a set-operation operand, the CTE called like a table '
        'read outside of it; or any case of the other streams): the rendering by the used object is judged like any other.  '
        'Shapes also cover operands of set operations (flat chains, parenthesised operands, operands with their own WITH '
        'clause, first columns written qualified / bare / as expressions): SQLite reads no parenthesised operand, the '
        'ground truth is the statement with every parenthesised operand P spelled SELECT * FROM (P); and a table read '
        'without alias by the outer query and again, next to another table, by a sub-query (EXISTS / IN / scalar / derived '
        'table / DELETE)')
ASSUMPTIONS = ['sqlite3 (SQLite 3.40) is the reference engine; mysql/postgresql output is judged only when SQLite can '
               'execute it', 'the statement is parsed with the mindsdb dialect; parsing itself is not judged here',
               'MSSQL / Oracle output cannot be executed here',
               'the meaning of a type name (CAST(x AS STRING) is numeric in SQLite), of a double-quoted name and of a '
               'backslash in a string constant is engine-specific: not judged',
               'CREATE TABLE: the length of a type (varchar(10) is rendered as VARCHAR), INT -> BIGINT and the NOT NULL '
               'a PRIMARY KEY column gets are not judged: SQLite ignores lengths, gives both types the same affinity and '
               'lets NULL into a non-INTEGER primary key only as a documented legacy quirk (in SQL, and in MySQL / '
               'PostgreSQL, a primary key column is NOT NULL); the table contents after the statement are the same',
               'a parenthesised operand P of a set operation means SELECT * FROM (P) (used as the SQLite spelling of P)',
               'a renderer object may be used for any number of statements (nothing in its interface says otherwise); '
               'the statements rendered before the judged one are part of the configuration']
FLOORS = {'quick': {'__nontrivial__': 400, 'target:sqlite': 800, 'kind:select': 1200, 'kind:dml': 300,
                    'tag:join:FULL OUTER JOIN': 150, 'tag:join:LEFT OUTER JOIN': 150, 'tag:join:LEFT JOIN': 150,
                    'tag:order': 600, 'tag:limit': 300, 'tag:group': 400, 'tag:window': 200, 'tag:distinct': 400,
                    'tag:sub:from': 500, 'tag:cte': 150, 'tag:setop:UNION': 50, 'tag:dml:update': 60,
                    'tag:dml:insert': 80, 'tag:dml:delete': 30, 'tag:dml:create': 30,
                    'tag:rank': 300, 'tag:rank:has-concat': 30, 'tag:rank:eq-then-predicate': 15, 'tag:rank:cmp-chain': 5,
                    'tag:op:plus-text-operand': 40, 'tag:bool-typed-operand': 40, 'tag:op:json-arrow': 8,
                    'tag:order:names-column-spelled-like-added-label': 15, 'tag:alias:exists': 8,
                    'tag:dml:create-if-not-exists:table-exists': 8, 'tag:cte:on-parenthesised-setop': 5,
                    'tag:offset:without-limit': 15, 'tag:name:anon_N-in-statement': 15, 'tag:const:exponent': 12,
                    'tag:order-matrix': 2160, 'tag:order-key:no-direction/NULLS LAST': 240, 'tag:order-matrix:window-rank': 54,
                    'tag:reuse': 150, 'tag:reuse:history:refused-in-nested-setop': 80, 'tag:reuse:history:rendered': 25,
                    'tag:reuse:refused-nested-setop-then-scoped-cte': 15,
                    'tag:cte:in-subquery': 100, 'tag:cte:name-shadows-outer-table': 80,
                    'tag:cte:own-of-parenthesised-operand': 15, 'tag:setop-operand': 35, 'tag:setop:parenthesised-operand': 25,
                    'tag:setop:nested-operand-first-column:qualified': 10, 'tag:added-label:func': 3,
                    'tag:table:unaliased-repeated-in-subquery': 25},
          'thorough': {'__nontrivial__': 5000, 'kind:select': 15000, 'kind:dml': 3500, 'tag:order-matrix': 2160,
                       'tag:reuse': 1500, 'tag:reuse:refused-nested-setop-then-scoped-cte': 150, 'tag:cte:in-subquery': 1000,
                       'tag:setop-operand': 500, 'tag:cte:own-of-parenthesised-operand': 120}}
N = {'quick': 300, 'thorough': 4000}
N_SHAPES = {'quick': 150, 'thorough': 1700}
N_REUSE = {'quick': 90, 'thorough': 1000}
TARGETS = ['sqlite', 'sqlite', 'mysql', 'postgresql']
CFG = model.Cfg(places={}, always_alias=True, order_by_source=True)
CFG2 = model.Cfg(places={}, always_alias=False, order_by_source=True)
CFG3 = model.Cfg(places={}, always_alias=True, order_by_source=True, concat_arith=True)   # un-aliased tables (inner ones may shadow outer ones)


def prepare(tier):
    import mindsdb_sql.render.sqlalchemy_render  # noqa: import cost before fork


def _render(tree, target):
    from mindsdb_sql.render.sqlalchemy_render import SqlalchemyRender
    return SqlalchemyRender(target).get_string(tree, with_failback=False)


def _used_renderer(target, history):
    """a renderer object that has rendered the statements of `history` (default fallback: what it cannot render comes
    back as the plain text of the statement, the caller sees no error)"""
    from mindsdb_sql import parse_sql
    from mindsdb_sql.render.sqlalchemy_render import SqlalchemyRender
    r = SqlalchemyRender(target)
    for h in history:
        try:
            r.get_string(parse_sql(h, 'mindsdb'))
        except Exception:
            pass            # not the judged statement
    return r


def judge(case, col):
    from mindsdb_sql import parse_sql
    from sqlalchemy.exc import SQLAlchemyError
    sql, data, target, kind = case['sql'], case['data'], case['target'], case['kind']
    meta = case.get('meta', {})
    cfg = {'target': target}
    tags = list(meta.get('tags', []))
    tables = model.engine_tables(data)
    A = engine.connect(tables)
    B = engine.connect(tables)
    classes = ['target:' + target, 'kind:' + kind] + ['tag:' + t for t in tags]
    try:
        if kind == 'select':
            _, truth = engine.run(A, sql)
        else:
            for stmt in sql if isinstance(sql, list) else [sql]:
                A.execute(stmt)
            truth = None
    except sqlite3.Error as e:
        col.excluded('ground truth not executable: ' + str(e)[:40])
        return []
    out = []
    # 'sql_parsed': the statement as it is given to the parser, when SQLite reads only another spelling of it
    #  (case['sql']): parentheses around a set operation after WITH, OFFSET without LIMIT
    stmts = case.get('sql_parsed') or sql
    stmts = stmts if isinstance(stmts, list) else [stmts]
    text = str(case.get('sql_parsed') or sql)
    rendered = []
    history = case.get('history')
    try:
        used = _used_renderer(target, history) if history else None
        for stmt in stmts:
            tree = parse_sql(stmt, 'mindsdb')
            rendered.append(used.get_string(tree, with_failback=False) if used is not None else _render(tree, target))
    except (NotImplementedError, SQLAlchemyError) as e:
        col.excluded('renderer: unsupported (' + type(e).__name__ + ': ' + str(e)[:60].replace('\n', ' ') + ')')
        col.case((target, str(sql)), False, classes + ['unsupported'])
        return []
    except Exception as e:
        col.excluded('parse/render internal error (C02/C17): ' + site_of(e) + ' ' + str(e)[-80:].replace('\n', ' ') + ' <- ' + str(stmts)[:200])
        return []
    try:
        if kind == 'select':
            _, got = engine.run(B, rendered[0])
        else:
            for r in rendered:
                B.execute(r)
            got = None
    except sqlite3.Error as e:
        if target == 'sqlite':
            out.append(findings.record('rendered-not-executable', 'sqlite', tags, cfg,
                                       f'{e}; rendered: {rendered}', text))
            col.case((target, str(sql), str(case.get('sql_parsed')), str(data), str(history)), False, classes + ['not-executable:sqlite'])
        else:
            col.excluded(f'{target} output not executable in sqlite')
            col.case((target, str(sql)), False, classes + ['not-executable:' + target])
        return out
    nontrivial = False
    if kind == 'select':
        oc = meta.get('order_cols') or []
        if oc and meta.get('total_order'):
            d = engine.compare(truth, got, True)
        else:
            d = engine.compare(truth, got, False)
            if d is None and oc:
                ka = [tuple(r[i] for i in oc) for r in truth]
                kb = [tuple(r[i] for i in oc) for r in got]
                if ka != kb:
                    d = f'sort keys differ: {ka[:6]} vs {kb[:6]}'
        if d:
            out.append(findings.record('rows-differ', target, tags, cfg, f'{d}; rendered: {rendered[0]!r}', text))
        nontrivial = len(truth) >= 1
    else:
        before = engine.dump_all(engine.connect(tables), tables)
        names = set(tables) | {(None, t) for t in case.get('new_tables', [])}
        da, db = engine.dump_all(A, names), engine.dump_all(B, names)
        if da != db:
            bad = [k for k in names if da.get(k) != db.get(k)]
            out.append(findings.record('tables-differ', target, tags, cfg,
                                       f'table {bad[0]}: {da.get(bad[0])} vs {db.get(bad[0])}; rendered: {rendered}',
                                       text))
        for t in case.get('new_tables', []):
            try:
                ia = A.execute(f'PRAGMA table_info("{t}")').fetchall()
                ib = B.execute(f'PRAGMA table_info("{t}")').fetchall()
                norm = lambda rows: [(r[1].lower(), r[5] > 0) for r in rows]
                if norm(ia) != norm(ib):
                    out.append(findings.record('schema-differs', target, tags, cfg, f'{ia} vs {ib}; {rendered}', text))
            except sqlite3.Error:
                pass
        nontrivial = any(da.get(k) != before.get(k) for k in names)
    col.case((target, str(sql), str(case.get('sql_parsed')), str(data), str(history)), nontrivial, classes,
             {'target': target, 'sql': sql, 'rendered': rendered, 'rows': len(truth) if truth is not None else None})
    return out


# ---- DML / DDL generator (text over the same schema)
@st.composite
def dml(draw):
    g = model.Gen(draw, model.Cfg(places={}, always_alias=False, subselect_where=True, correlated=False))
    t = g.pick(sorted(model.SCHEMA))
    cols = model.SCHEMA[t]
    scope = [(None, cols)]
    kind = g.pick(['insert', 'insert', 'insert_select', 'update', 'update', 'delete', 'create', 'drop'])
    tags = {'dml:' + kind}
    new_tables = []

    def nm(c):
        # a name written in back-quotes denotes the same column (SQLite reads `a` as a quoted name too)
        if g.chance(1, 4):
            tags.add('dml:quoted-name')
            return '`' + c + '`'
        return c

    def val(typ):
        if typ == 'int':
            return g.pick(['NULL', '0', '1', '2', '7', '-1'])
        return g.pick(['NULL', "'x'", "'y'", "'w'"])

    if kind == 'insert':
        n = draw(st.integers(1, 3))
        use = cols if g.chance(1, 2) else [c for c in cols if g.chance(2, 3)] or cols[:1]
        rows = ', '.join('(' + ', '.join(val(ty) for _, ty in use) + ')' for _ in range(n))
        collist = '' if use is cols and g.chance(1, 2) else ' (' + ', '.join(nm(c) for c, _ in use) + ')'
        sql = f'INSERT INTO {t}{collist} VALUES {rows}'
    elif kind == 'insert_select':
        src = g.pick([x for x in sorted(model.SCHEMA) if len(model.SCHEMA[x]) >= 2])
        a, b = model.SCHEMA[src][0][0], model.SCHEMA[src][1][0]
        where = ' WHERE ' + g.bool_expr([(None, model.SCHEMA[src])], 1, allow_sub=False) if g.chance(1, 2) else ''
        sql = f'INSERT INTO {t} ({nm(cols[0][0])}, {nm(cols[1][0])}) SELECT {a}, {b} FROM {src}{where}'
    elif kind == 'update':
        sets = []
        for c, ty in cols:
            if g.chance(1, 2) or not sets:
                e = g.int_expr(scope, 1) if ty == 'int' else g.text_expr(scope, 1)
                sets.append(f'{nm(c)} = {e}')
        where = ' WHERE ' + g.bool_expr(scope, 1, allow_sub=False) if g.chance(3, 4) else ''
        sql = f'UPDATE {t} SET {", ".join(sets)}{where}'
    elif kind == 'delete':
        where = ' WHERE ' + g.bool_expr(scope, 2, allow_sub=False) if g.chance(4, 5) else ''
        sql = f'DELETE FROM {t}{where}'
    elif kind == 'create':
        name = 'n1'
        new_tables.append(name)
        defs = []
        for i in range(draw(st.integers(1, 3))):
            ty = g.pick(['int', 'integer', 'varchar(10)', 'text', 'float'])
            extra = g.pick(['', '', ' NOT NULL', ' NULL', ' PRIMARY KEY' if i == 0 else ''])
            defs.append(f'{nm("k" + str(i))} {ty}{extra}')
        sql = [f'CREATE TABLE {g.pick(["", "IF NOT EXISTS "])}{name} ({", ".join(defs)})',
               f'INSERT INTO {name} (k0) VALUES (1)']
    else:
        sql = f'DROP TABLE {g.pick(["", "IF EXISTS "])}{t}'
    tags |= g.tags
    return {'sql': sql, 'meta': {'tags': sorted(tags)}, 'new_tables': new_tables, 'kind': 'dml'}


@st.composite
def cases(draw):
    if draw(st.integers(0, 4)) == 0:
        c = draw(dml())
    else:
        which = draw(st.integers(0, 4))
        c = draw(model.queries(CFG3 if which == 0 else CFG if which < 3 else CFG2))
        c['kind'] = 'select'
        if which == 0:
            # `||` has its own rank in every engine (tightest in SQLite, below arithmetic in PostgreSQL, OR in MySQL):
            #  statements that mix it with arithmetic are outside the common subset, judged for the sqlite target only
            c['data'] = draw(model.table_data())
            c['target'] = 'sqlite'
            return c
    c['data'] = draw(model.table_data())
    c['target'] = draw(st.sampled_from(TARGETS))
    return c


@st.composite
def shape_cases(draw):
    c = draw(c06_shapes.shapes())
    tags = set(c['meta']['tags'])
    if tags & {'offset:without-limit', 'op:json-arrow'}:
        c['target'] = 'sqlite'      # LIMIT -1 / '->' are SQLite's own spellings
    else:
        c['target'] = draw(st.sampled_from(TARGETS))
    return c


@st.composite
def reuse_cases(draw):
    c = c06_shapes.reuse(draw, st.one_of(cases(), shape_cases()))
    if 'target' not in c:
        # the state a renderer keeps may depend on the dialect: sqlite has the most rewrites of its own
        c['target'] = draw(st.sampled_from(['sqlite', 'sqlite', 'sqlite', 'mysql', 'postgresql']))
    return c


def run_shard(col, k, nshards, tier, seed):
    key = lambda r: (r['kind'], r['site'][:40])
    hyp.explore(col, cases(), judge, N[tier], seed, shrink_key=key)
    hyp.explore(col, shape_cases(), judge, N_SHAPES[tier], seed + 1, shrink_key=key)
    hyp.explore(col, reuse_cases(), judge, N_REUSE[tier], seed + 2, shrink_key=key)
    for i, c in enumerate(c06_shapes.rank_cases() + c06_shapes.order_matrix_cases()):
        if i % nshards == k:
            for rec in judge(c, col):
                col.fail(rec, c)
    if k == 0:
        col.exhaustive_parts.append('operator rank: x OP1 y OP2 z without parentheses for every ordered pair of %d binary '
                                    'operators (two operand fillings) and NOT / unary minus before each, over all pairs '
                                    'of column values, target sqlite' % len(c06_shapes.BINARY))
        col.exhaustive_parts.append('ORDER BY key: {none, ASC, DESC} x {none, NULLS FIRST, NULLS LAST} at %d places (two-key '
                                    'places: all 81 pairs) x 3 targets x 2 tables' % len(c06_shapes._order_places()))
