"""C05 — a statement is accepted only if its whole token stream is one grammar sentence.

Oracle: Earley recogniser over the bare grammar (no LR tables / precedence / recovery) + an account of every character
of the source text by the token spans (vf/oracles/c05_scan.py: blanks, complete comments, tokens that hide nothing).
Generated: corpus sentences, grammar derivations, token mutations, garbage prefix / suffix / infix, concatenations and
statement TEXTS (vf/gens/c05_text.py): separators / comment shapes at every place incl. inside the two-word keywords,
stripped tails, raw-query bodies, glued tokens, single-character edits.
"""
import re
from hypothesis import strategies as st

from vf import findings, hyp
from vf.gens import corpus, grammar, mutate, c05_text
from vf.oracles.earley import Grammar
from vf.oracles import c05_scan

PROPERTY = 'C05'
RULE = ('cases = (dialect, text) built from corpus statements and random grammar derivations by token edits '
        '(delete/dup/replace/insert/swap/truncate), garbage prefix/suffix/infix and statement concatenation + bounded-exhaustive: every production of each live grammar '
        'with every alternative of each of its nonterminals; + text families (bounded-exhaustive: 44 separators / comment '
        'shapes x every place of small statements incl. inside each two-word keyword; every tail of <= 2 (3) pieces over '
        'a 17 (9) piece alphabet; 9 raw-query commands x 31 bodies x 10 continuations; random: tokens glued without / '
        'with blanks and comments and case flips, one-character delete / replace / insert / double); '
        'non-trivial = >=3 tokens, text not verbatim in the corpus, lexes completely, and either accepted (Earley '
        'recogniser consulted) or a non-sentence by the recogniser; distinct by (dialect, token-type sequence)')
ASSUMPTIONS = ['Parser._grammar.Productions is the grammar (read at run time)',
               'the lexer token types are taken as given; the characters are accounted for by an own left-to-right reader: '
               'between tokens only blanks and complete comments, inside a non-quoted token only its words (two-word '
               'keywords: blanks of the \\s class, comments or one underscore between the words)',
               'soundness direction only: the LALR parser may reject sentences of the bare grammar']
_TEXT_FLOORS = {'text:sep': 11000, 'text:sep:inside': 1400, 'text:sep:gap': 6800, 'text:sep:lead': 1400,
                'text:sep:trail': 1400, 'text:tail': 5000, 'text:raw': 3300, 'text:raw:after': 3000,
                'text:accounted': 5000}
FLOORS = {'quick': dict({'accepted': 1500, 'non-sentence': 1500, 'non-sentence-valid-suffix': 300, '__nontrivial__': 2500,
                         'text:glue': 250, 'text:char': 250}, **_TEXT_FLOORS),
          'thorough': dict({'accepted': 15000, 'non-sentence': 15000, 'non-sentence-valid-suffix': 3000,
                            '__nontrivial__': 25000, 'text:glue': 2500, 'text:char': 2500}, **_TEXT_FLOORS)}
N = {'quick': 800, 'thorough': 8000}
N_TEXT = {'quick': 120, 'thorough': 1200}     # per shard: glue; char gets twice as many

_G = {}
_CORPUS_TEXTS = set()
_TOK = {}


def prepare(tier):
    from mindsdb_sql import get_lexer_parser
    for d in corpus.DIALECTS:
        lexer, parser = get_lexer_parser(d)
        _G[d] = (Grammar(type(parser)), type(lexer))
        grammar.get(d)
    for x in corpus.accepted():
        _CORPUS_TEXTS.add((x['dialect'], x['sql']))
    # pre-lex the corpus into source tokens (mutation bases)
    for d in corpus.DIALECTS:
        bases = []
        for x in corpus.accepted(d):
            s = re.sub(r'[\s;]+$', '', x['sql'])
            toks = mutate.source_tokens(_G[d][1], s)
            if toks and len(toks) <= 60:
                bases.append(toks)
        _TOK[d] = bases


def strip(sql):
    return re.sub(r'[\s;]+$', '', sql)


def judge(case, col):
    from mindsdb_sql import parse_sql
    from mindsdb_sql.exceptions import ParsingException
    from sly.lex import LexError
    d, sql = case['dialect'], case['sql']
    g, lexer_cls = _G[d]
    cfg = {'dialect': d}
    try:
        parse_sql(sql, d)
        accepted = True
    except (ParsingException, LexError):
        accepted = False
    except RecursionError:
        col.excluded('recursion')
        return []
    except Exception:
        col.excluded('internal-error (C02)')
        return []
    s = strip(sql)
    spans = mutate.lex_spans(lexer_cls, s)
    if spans is None:
        if accepted:
            return [findings.record('accepted-but-lexer-rejects', 'lexer', [], cfg, '', sql)]
        col.case((d, 'lexerror', s), False, ['lexerror'] + list(case.get('tags', ())))
        return []
    types = [x[0] for x in spans]
    sentence = g.accepts(types)
    verbatim = (d, sql) in _CORPUS_TEXTS
    key = (d, ' '.join(types))
    out = []
    classes = ['origin:' + case.get('origin', '?').replace(':multiline', '').replace(':twolines', ''), 'dialect:' + d]
    if '\n' in sql:
        classes.append('multiline')
    classes += list(case.get('tags', ()))
    if accepted:
        classes.append('accepted')
        if case.get('tags'):
            classes.append('text:accounted')
        if not sentence:
            k = g.viable_prefix_len(types)
            out.append(findings.record('accepted-non-sentence', 'earley',
                                       ['origin:' + case.get('origin', '?')], cfg,
                                       f'token types {types}; longest viable prefix {k}', sql))
        # every character of the text is a blank, a complete comment or part of exactly one token that hides nothing
        # (left-to-right reader of vf/oracles/c05_scan.py; the spans are the lexer's, the reading of them is not)
        for where, why in c05_scan.account(s, spans):
            out.append(findings.record('skipped-characters', 'lexer:' + where, [], cfg, why, sql))
    else:
        if sentence:
            classes.append('sentence-rejected-by-LALR')
        else:
            classes.append('non-sentence')
            # does a proper suffix form a statement?  (the resynchronisation shape)
            for j in range(1, min(len(types), 12)):
                if len(types) - j >= 2 and g.accepts(types[j:]):
                    classes.append('non-sentence-valid-suffix')
                    break
    nontrivial = len(types) >= 3 and not verbatim and (accepted or not sentence)
    col.case(key, nontrivial, classes, {'dialect': d, 'sql': sql, 'accepted': accepted, 'sentence': sentence})
    return out


@st.composite
def cases(draw):
    d = draw(st.sampled_from(corpus.DIALECTS))
    gg = grammar.get(d)
    src = draw(st.sampled_from(['corpus', 'grammar', 'grammar']))
    if src == 'corpus':
        base = draw(st.sampled_from(_TOK[d]))
    else:
        base = draw(gg.sentence())
    mode = draw(st.sampled_from(['plain', 'mutate', 'mutate', 'mutate', 'resync', 'resync', 'other-dialect']))
    origin = src + ':' + mode
    if mode == 'plain':
        toks = base
    elif mode == 'mutate':
        others = [draw(st.sampled_from(_TOK[d]))]
        kind, toks = draw(mutate.mutation(base, gg.all_lexemes(), others))
        origin += ':' + kind
        if draw(st.integers(0, 3)) == 0:
            kind2, toks = draw(mutate.mutation(toks, gg.all_lexemes(), others))
    elif mode == 'resync':
        # non-sentence whose suffix is a valid statement: junk, then a full statement
        junk = draw(st.sampled_from(['x y', 'x y ;', ')', 'select 1 ;', 'drop x', 'select 1 from t where )',
                                     'select', 'a b c', ';', 'select 1', '1 2', 'show', 'use a ;', 'delete from',
                                     'select * from', '( (', 'insert into t', 'set']))
        toks = junk.split() + base
    else:
        d2 = draw(st.sampled_from([x for x in corpus.DIALECTS if x != d]))
        toks = draw(st.sampled_from(_TOK[d2]))
    lay = draw(st.integers(0, 3))
    if lay == 0:
        # multi-line layout: error recovery may behave differently once tokens sit on different lines
        sql = draw(mutate.layout(toks))
        origin += ':multiline'
    elif lay == 1 and mode in ('resync', 'mutate'):
        # line breaks exactly at statement-ish boundaries
        cut = draw(st.integers(0, len(toks)))
        sql = ' '.join(toks[:cut]) + draw(st.sampled_from(['\n', '\n;\n', ' \n ', '\n\n'])) + ' '.join(toks[cut:])
        origin += ':twolines'
    else:
        sql = ' '.join(toks)
    if draw(st.integers(0, 5)) == 0:
        sql = sql + draw(st.sampled_from([';', ' ;', ';;', ' ; ', '\n;\n']))
    return {'dialect': d, 'sql': sql, 'origin': origin}


def run_shard(col, k, nshards, tier, seed):
    if k == 0:
        # the corpus itself (verbatim), once
        for x in corpus.accepted():
            for rec in judge({'dialect': x['dialect'], 'sql': x['sql'], 'origin': 'corpus:verbatim'}, col):
                col.fail(rec, x)
    # bounded-exhaustive: every production of the live grammar with every alternative of each of its nonterminals
    for d in corpus.DIALECTS:
        for label, toks in grammar.get(d).pair_sentences()[k::nshards]:
            c = {'dialect': d, 'sql': ' '.join(toks), 'origin': 'pairs:production'}
            for rec in judge(c, col):
                col.fail(rec, c)
    # bounded-exhaustive text families
    for i, c in enumerate(c05_text.static_cases()):
        if i % nshards == k:
            for rec in judge(c, col):
                col.fail(rec, c)
    if k == 0:
        col.exhaustive_parts.append('text families sep / tail / raw of vf/gens/c05_text.py')
    hyp.explore(col, cases(), judge, N[tier], seed)
    # separate runs: inside one_of Hypothesis draws the families very unevenly
    hyp.explore(col, c05_text.text_cases(_TOK, 'glue'), judge, N_TEXT[tier], seed)
    hyp.explore(col, c05_text.text_cases(_TOK, 'char'), judge, 2 * N_TEXT[tier], seed)
