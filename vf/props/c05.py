"""C05 — a statement is accepted only if its whole token stream is one grammar sentence.

Oracle: Earley recogniser over the bare grammar (no LR tables / precedence / recovery) + tiling of the source text
by the token spans.  Generated: corpus sentences, grammar derivations, token mutations, garbage prefix / suffix /
infix, concatenations.
"""
import re
from hypothesis import strategies as st

from vf import findings, hyp
from vf.gens import corpus, grammar, mutate
from vf.oracles.earley import Grammar

PROPERTY = 'C05'
RULE = ('cases = (dialect, text) built from corpus statements and random grammar derivations by token edits '
        '(delete/dup/replace/insert/swap/truncate), garbage prefix/suffix/infix and statement concatenation + bounded-exhaustive: every production of each live grammar '
        'with every alternative of each of its nonterminals; '
        'non-trivial = >=3 tokens, text not verbatim in the corpus, lexes completely, and either accepted (Earley '
        'recogniser consulted) or a non-sentence by the recogniser; distinct by (dialect, token-type sequence)')
ASSUMPTIONS = ['Parser._grammar.Productions is the grammar (read at run time)',
               'the lexer token stream is taken as given; character skipping is judged by the tiling clause only',
               'soundness direction only: the LALR parser may reject sentences of the bare grammar']
FLOORS = {'quick': {'accepted': 1500, 'non-sentence': 1500, 'non-sentence-valid-suffix': 300, '__nontrivial__': 2500},
          'thorough': {'accepted': 15000, 'non-sentence': 15000, 'non-sentence-valid-suffix': 3000,
                       '__nontrivial__': 25000}}
N = {'quick': 800, 'thorough': 8000}

_G = {}
_CORPUS_TEXTS = set()
_TOK = {}


def prepare(tier):
    from mindsdb_sql import get_lexer_parser
    for d in corpus.DIALECTS:
        lexer, parser = get_lexer_parser(d)
        _G[d] = (Grammar(type(parser)), type(lexer))
        grammar.get(d)
    for x in corpus.accepted():
        _CORPUS_TEXTS.add((x['dialect'], x['sql']))
    # pre-lex the corpus into source tokens (mutation bases)
    for d in corpus.DIALECTS:
        bases = []
        for x in corpus.accepted(d):
            s = re.sub(r'[\s;]+$', '', x['sql'])
            toks = mutate.source_tokens(_G[d][1], s)
            if toks and len(toks) <= 60:
                bases.append(toks)
        _TOK[d] = bases


def strip(sql):
    return re.sub(r'[\s;]+$', '', sql)


def judge(case, col):
    from mindsdb_sql import parse_sql
    from mindsdb_sql.exceptions import ParsingException
    from sly.lex import LexError
    d, sql = case['dialect'], case['sql']
    g, lexer_cls = _G[d]
    cfg = {'dialect': d}
    try:
        parse_sql(sql, d)
        accepted = True
    except (ParsingException, LexError):
        accepted = False
    except RecursionError:
        col.excluded('recursion')
        return []
    except Exception:
        col.excluded('internal-error (C02)')
        return []
    s = strip(sql)
    spans = mutate.lex_spans(lexer_cls, s)
    if spans is None:
        if accepted:
            return [findings.record('accepted-but-lexer-rejects', 'lexer', [], cfg, '', sql)]
        col.case((d, 'lexerror', s), False, ['lexerror'])
        return []
    types = [x[0] for x in spans]
    sentence = g.accepts(types)
    verbatim = (d, sql) in _CORPUS_TEXTS
    key = (d, ' '.join(types))
    out = []
    classes = ['origin:' + case.get('origin', '?').replace(':multiline', '').replace(':twolines', ''), 'dialect:' + d]
    if '\n' in sql:
        classes.append('multiline')
    if accepted:
        classes.append('accepted')
        if not sentence:
            k = g.viable_prefix_len(types)
            out.append(findings.record('accepted-non-sentence', 'earley',
                                       ['origin:' + case.get('origin', '?')], cfg,
                                       f'token types {types}; longest viable prefix {k}', sql))
        # tiling
        pos = 0
        for (ty, src, i, e) in spans:
            if not mutate.WS_RE.fullmatch(s[pos:i]):
                out.append(findings.record('skipped-characters', 'lexer', [], cfg,
                                           f'gap {s[pos:i]!r} before token {src!r} at {i}', sql))
                break
            pos = e
        else:
            if not mutate.WS_RE.fullmatch(s[pos:]):
                out.append(findings.record('skipped-characters', 'lexer', [], cfg, f'tail {s[pos:]!r}', sql))
    else:
        if sentence:
            classes.append('sentence-rejected-by-LALR')
        else:
            classes.append('non-sentence')
            # does a proper suffix form a statement?  (the resynchronisation shape)
            for j in range(1, min(len(types), 12)):
                if len(types) - j >= 2 and g.accepts(types[j:]):
                    classes.append('non-sentence-valid-suffix')
                    break
    nontrivial = len(types) >= 3 and not verbatim and (accepted or not sentence)
    col.case(key, nontrivial, classes, {'dialect': d, 'sql': sql, 'accepted': accepted, 'sentence': sentence})
    return out


@st.composite
def cases(draw):
    d = draw(st.sampled_from(corpus.DIALECTS))
    gg = grammar.get(d)
    src = draw(st.sampled_from(['corpus', 'grammar', 'grammar']))
    if src == 'corpus':
        base = draw(st.sampled_from(_TOK[d]))
    else:
        base = draw(gg.sentence())
    mode = draw(st.sampled_from(['plain', 'mutate', 'mutate', 'mutate', 'resync', 'resync', 'other-dialect']))
    origin = src + ':' + mode
    if mode == 'plain':
        toks = base
    elif mode == 'mutate':
        others = [draw(st.sampled_from(_TOK[d]))]
        kind, toks = draw(mutate.mutation(base, gg.all_lexemes(), others))
        origin += ':' + kind
        if draw(st.integers(0, 3)) == 0:
            kind2, toks = draw(mutate.mutation(toks, gg.all_lexemes(), others))
    elif mode == 'resync':
        # non-sentence whose suffix is a valid statement: junk, then a full statement
        junk = draw(st.sampled_from(['x y', 'x y ;', ')', 'select 1 ;', 'drop x', 'select 1 from t where )',
                                     'select', 'a b c', ';', 'select 1', '1 2', 'show', 'use a ;', 'delete from',
                                     'select * from', '( (', 'insert into t', 'set']))
        toks = junk.split() + base
    else:
        d2 = draw(st.sampled_from([x for x in corpus.DIALECTS if x != d]))
        toks = draw(st.sampled_from(_TOK[d2]))
    lay = draw(st.integers(0, 3))
    if lay == 0:
        # multi-line layout: error recovery may behave differently once tokens sit on different lines
        sql = draw(mutate.layout(toks))
        origin += ':multiline'
    elif lay == 1 and mode in ('resync', 'mutate'):
        # line breaks exactly at statement-ish boundaries
        cut = draw(st.integers(0, len(toks)))
        sql = ' '.join(toks[:cut]) + draw(st.sampled_from(['\n', '\n;\n', ' \n ', '\n\n'])) + ' '.join(toks[cut:])
        origin += ':twolines'
    else:
        sql = ' '.join(toks)
    if draw(st.integers(0, 5)) == 0:
        sql = sql + draw(st.sampled_from([';', ' ;', ';;', ' ; ', '\n;\n']))
    return {'dialect': d, 'sql': sql, 'origin': origin}


def run_shard(col, k, nshards, tier, seed):
    if k == 0:
        # the corpus itself (verbatim), once
        for x in corpus.accepted():
            for rec in judge({'dialect': x['dialect'], 'sql': x['sql'], 'origin': 'corpus:verbatim'}, col):
                col.fail(rec, x)
    # bounded-exhaustive: every production of the live grammar with every alternative of each of its nonterminals
    for d in corpus.DIALECTS:
        for label, toks in grammar.get(d).pair_sentences()[k::nshards]:
            c = {'dialect': d, 'sql': ' '.join(toks), 'origin': 'pairs:production'}
            for rec in judge(c, col):
                col.fail(rec, c)
    hyp.explore(col, cases(), judge, N[tier], seed)
