"""Hypothesis driver: generate -> judge -> collect; then shrink each unmatched failure signature separately."""
import time
import hypothesis
from hypothesis import given, settings, seed as hseed, HealthCheck, Phase, strategies as st
from vf import findings
from vf.collect import NullCollector

SUPPRESS = [HealthCheck.too_slow, HealthCheck.data_too_large, HealthCheck.large_base_example]


class _StopShrink(BaseException):
    pass


def explore(col, strategy, judge, max_examples, seed, shrink_budget_s=25, max_shrinks=1, shrink_key=None):
    """Run `judge(case, col)` on `max_examples` draws of `strategy`.

    judge returns a list of failure records (possibly empty).  Failures covered by an open known finding are
    counted and the search continues; the others are collected by signature and afterwards shrunk one signature
    at a time by re-running the same seeded test with only that signature failing.
    """
    found = {}
    key = shrink_key or findings.sig   # what must stay the same while shrinking (default: the full signature)

    @hseed(seed)
    @settings(max_examples=max_examples, database=None, deadline=None, derandomize=False,
              report_multiple_bugs=False, suppress_health_check=SUPPRESS, phases=[Phase.generate])
    @given(strategy)
    def run(case):
        for rec in judge(case, col) or ():
            if not col.fail(rec, case):
                found.setdefault(key(rec), (rec, case))

    run()

    # shrink
    for k, (s, (rec, case)) in enumerate(list(found.items())):
        if k >= max_shrinks:
            break
        best = _shrink(strategy, judge, s, seed, max_examples, shrink_budget_s, col.entries, key)
        if best is not None:
            u = col.unmatched.get(findings.sig(rec))
            if u is not None:
                u['record'], u['case'], u['shrunk'] = best[0], best[1], True


def _shrink(strategy, judge, target_sig, seed, max_examples, budget_s, entries, key=findings.sig):
    nc = NullCollector(entries)
    state = {'best': None, 't0': None}

    @hseed(seed)
    @settings(max_examples=max_examples, database=None, deadline=None, derandomize=False,
              report_multiple_bugs=False, suppress_health_check=SUPPRESS,
              phases=[Phase.generate, Phase.shrink])
    @given(strategy)
    def run(case):
        for rec in judge(case, nc) or ():
            if key(rec) == target_sig and not findings.find(entries, rec, 'open'):
                if state['t0'] is None:
                    state['t0'] = time.monotonic()
                state['best'] = (rec, case)
                if time.monotonic() - state['t0'] > budget_s:
                    raise _StopShrink()
                raise AssertionError('target failure')

    try:
        run()
    except _StopShrink:
        pass
    except AssertionError:
        pass
    except Exception:
        pass
    return state['best']
