"""G-grammar: random derivations of the *live* grammar of a dialect, as Hypothesis strategies.

Productions are read from Parser._grammar.Productions at run time.  Alternatives are ordered by minimal derivation
depth so that shrinking goes to the shortest sentence.  Terminals get lexemes from pools.
"""
import collections, re
from hypothesis import strategies as st

INF = 10 ** 9

# lexeme pools for value-carrying terminals.  "lite" pools keep registered domains finite and saturable;
# "rich" pools are for triage / thorough.
POOLS = {
    'lite': {
        'ID': ['a', 'b', 't1', 'col1', 'x1', 'int1', 'pred', '`a b`', '`select`', 'T2', '`in$stock`', '`select$1`',
               '`1abc`', '`x$y`', '$a', '`a-b`', '`from`'],
        'INTEGER': ['0', '1', '2', '10'],
        'FLOAT': ['1.5', '0.25', '0.000012345678901234', '0.00000000000000000012', '123456789.125'],
        'QUOTE_STRING': ["'x'", "'a b'", "''", "'2020-01-01'"],
        'DQUOTE_STRING': ['"x"', '"a b"'],
        'VARIABLE': ['@v'],
        'SYSTEM_VARIABLE': ['@@sv'],
    },
    'rich': {
        'ID': ['a', 'b', 't1', 'col1', 'x1', 'int1', 'pred', '`a b`', '`select`', 'T2', '1a', '$x', '`a.b`',
               'primary_key', '`group by`', 'model', 'status', '`x-y`', 'ünï'],
        'INTEGER': ['0', '1', '2', '10', '007', '12345678901234567890'],
        'FLOAT': ['1.5', '0.25', '0.00001', '10.0', '123456789.123456789'],
        'QUOTE_STRING': ["'x'", "'a b'", "''", "'2020-01-01'", "'it''s'", "'a\\'b'", "'a\\\\'", "'%'", "'\"'"],
        'DQUOTE_STRING': ['"x"', '"a b"', '"a.b"', '"it\'s"', '"a\\"b"'],
        'VARIABLE': ['@v', "@'a b'", '@`a b`', '@"a b"', '@a.b'],
        'SYSTEM_VARIABLE': ['@@sv', "@@'a b'", '@@a.b'],
    },
}


def pattern_to_lexeme(pat):
    """Turn a keyword/symbol regex of the lexers into one concrete spelling."""
    s = pat.replace('\\b', '')
    s = s.replace('[\\s]+', ' ').replace('\\s+', ' ').replace('[_|\\s]', '_').replace('[_\\s]', '_').replace('[\\s]*', '')
    m = re.fullmatch(r'\((.*)\)', s)
    if m and '|' in m.group(1):
        s = m.group(1).split('|')[0]
    elif '|' in s and not s.startswith('\\'):
        s = s.split('|')[0]
    s = s.replace('\\', '')
    return s


class GrammarGen:
    def __init__(self, dialect):
        from mindsdb_sql import get_lexer_parser
        self.dialect = dialect
        lexer, parser = get_lexer_parser(dialect)
        self.lexer_cls = type(lexer)
        g = parser._grammar
        self.start = g.Start
        prods = collections.defaultdict(list)
        for p in g.Productions[1:]:
            prods[p.name].append(tuple(p.prod))
        self.depths = self._min_depths(prods)
        self.prods = {n: sorted(alts, key=lambda a: (self.altdepth(a), len(a), a)) for n, alts in prods.items()}
        self.terminals = sorted(t for t in g.Terminals if t != 'error')
        self.kw = {}
        self.bad_terminals = []
        for t in self.terminals:
            if t in POOLS['lite']:
                continue
            pat = getattr(lexer, t, None)
            if not isinstance(pat, str):
                # tokens defined through a function (ID etc. are in pools); literals
                self.bad_terminals.append(t)
                continue
            lx = pattern_to_lexeme(pat)
            toks = self._lex(lx)
            if toks == [t]:
                self.kw[t] = lx
            else:
                self.bad_terminals.append(t)
        self.start_kinds = [a[0] for a in self.prods[self.start] if len(a) == 1]

    def _lex(self, text):
        try:
            return [t.type for t in self.lexer_cls().tokenize(text)]
        except Exception:
            return None

    @staticmethod
    def _min_depths(prods):
        d = {n: INF for n in prods}
        ch = True
        while ch:
            ch = False
            for n, alts in prods.items():
                for a in alts:
                    m = 0
                    for s in a:
                        if s in prods:
                            m = max(m, d[s])
                    if m < INF and m + 1 < d[n]:
                        d[n] = m + 1; ch = True
        return d

    def altdepth(self, a):
        return max([self.depths[s] for s in a if s in self.depths] or [0])

    def usable(self, alt):
        return all((s in self.prods) or (s in self.kw) or (s in POOLS['lite']) for s in alt)

    def all_lexemes(self, pool='lite'):
        out = list(self.kw.values())
        for v in POOLS[pool].values():
            out.extend(v)
        return out

    # identifier spellings used in tame mode instead of deriving `identifier` (no keyword-spelled parts, no star or
    # integer parts in the middle)
    TAME_IDENTIFIERS = [['a'], ['b'], ['t1'], ['col1'], ['t1', '.', 'a'], ['int1', '.', 't1'], ['`a b`'],
                        ['`select`'], ['x1', '.', '`a b`'], ['T2'], ['pred'], ['proj', '.', 'pred'], ['`as$of`'],
                        ['`select$1`'], ['t1', '.', '`or$`'], ['`1abc`'], ['$a'], ['`a-b`'], ['`order`', '.', '`by`']]

    def sentence(self, start=None, budget=st.integers(3, 7), pool='lite', tame=False):
        """Strategy for a token list (strings) derived from `start` (a nonterminal, or None = stratified).

        tame=True excludes, by construction, the constructs whose printers are known to be broken wholesale on the
        pinned tree (keyword-spelled identifiers via the `id: KEYWORD` productions, star/integer parts in the middle
        of identifiers, arbitrary statements as sub-queries, random token soup as raw queries): `id` derives only
        ID, `identifier` comes from a fixed list, a nested `query` is a select/union, `raw_query` is a derived select.
        """
        gen = self
        pools = POOLS[pool]

        @st.composite
        def _sentence(draw):
            b = draw(budget)
            if start is None:
                sym = draw(gen.stratified_start())
            else:
                sym = start
            out = []

            def derive(sym, b, top=False):
                if sym not in gen.prods:
                    if sym in pools:
                        out.append(draw(st.sampled_from(pools[sym])))
                    else:
                        out.append(gen.kw[sym])
                    return
                alts = [a for a in gen.prods[sym] if gen.usable(a)]
                if tame:
                    if sym == 'id':
                        alts = [a for a in alts if a == ('ID',)] or alts
                    elif sym == 'identifier':
                        out.extend(draw(st.sampled_from(gen.TAME_IDENTIFIERS)))
                        return
                    elif sym == 'query' and not top:
                        alts = [a for a in alts if a in (('select',), ('union',))] or alts
                    elif sym == 'raw_query':
                        derive('select', min(b, 3))
                        return
                if b <= 0:
                    m = gen.altdepth(alts[0])
                    alts = [a for a in alts if gen.altdepth(a) == m]
                a = alts[0] if len(alts) == 1 else alts[draw(st.integers(0, len(alts) - 1))]
                for s in a:
                    derive(s, b - 1)

            derive(sym, b, top=True)
            return out
        return _sentence()

    # ---- bounded-exhaustive part: every production combined with every alternative of each of its nonterminals ----

    def _default_lexeme(self, sym):
        return POOLS['lite'][sym][0] if sym in POOLS['lite'] else self.kw[sym]

    def min_sentence(self, sym, _memo=None):
        """token list of a minimal-depth derivation of `sym` (first usable alternative in depth order)"""
        memo = self.__dict__.setdefault('_min_memo', {})
        if sym in memo:
            return memo[sym]
        if sym not in self.prods:
            r = [self._default_lexeme(sym)]
        else:
            alts = [a for a in self.prods[sym] if self.usable(a)]
            # an ordinary name rather than the alphabetically first keyword that may serve as a name
            r = self.expand(('ID',) if ('ID',) in alts else ('id',) if ('id',) in alts else alts[0])
        memo[sym] = r
        return r

    def expand(self, alt, at=None, with_alt=None):
        """tokens of production body `alt` with minimal children, position `at` expanded through `with_alt`"""
        out = []
        for i, s in enumerate(alt):
            if i == at:
                out.extend(self.expand(with_alt))
            else:
                out.extend(self.min_sentence(s))
        return out

    def contexts(self):
        """{nonterminal: (prefix tokens, suffix tokens)}: a shortest sentence frame around the nonterminal"""
        if '_ctx' in self.__dict__:
            return self._ctx
        ctx = {self.start: ([], [])}
        frontier = [self.start]
        while frontier:
            nxt = []
            for n in frontier:
                pre, suf = ctx[n]
                for a in self.prods[n]:
                    if not self.usable(a):
                        continue
                    for i, s in enumerate(a):
                        if s in self.prods and s not in ctx:
                            left, right = [], []
                            for x in a[:i]:
                                left.extend(self.min_sentence(x))
                            for x in a[i + 1:]:
                                right.extend(self.min_sentence(x))
                            ctx[s] = (pre + left, right + suf)
                            nxt.append(s)
            frontier = nxt
        self._ctx = ctx
        return ctx

    VARIED_NAMES = ['a', 'b', 'c1', 'd', 'e2', 'f', 'g']

    def _vary_names(self, toks):
        """the k-th plain name of a sentence gets its own spelling (all names equal would hide everything that depends
        on two names being different: duplicate checks, lookups of one name among others)"""
        base = self._default_lexeme('ID')
        out, k = [], 0
        for t in toks:
            if t == base:
                out.append(self.VARIED_NAMES[k % len(self.VARIED_NAMES)])
                k += 1
            else:
                out.append(t)
        return out

    def pair_sentences(self):
        """Deterministic list of (label, tokens): for every usable production N -> X1..Xk, once with minimal children,
        and for every nonterminal position i and every usable alternative q of Xi once with Xi derived through q;
        all other symbols minimal, the whole placed in a shortest frame from the start symbol."""
        if '_pairs' in self.__dict__:
            return self._pairs
        ctx = self.contexts()
        out, seen = [], set()
        for n in sorted(self.prods):
            if n not in ctx:
                continue
            pre, suf = ctx[n]
            for a in self.prods[n]:
                if not self.usable(a):
                    continue
                cands = [(f'{n}->{" ".join(a)}', self.expand(a))]
                for i, s in enumerate(a):
                    if s in self.prods:
                        for q in self.prods[s]:
                            if self.usable(q):
                                cands.append((f'{n}->{" ".join(a)} @{i}:{" ".join(q) or "<empty>"}', self.expand(a, i, q)))
                for label, mid in cands:
                    toks = self._vary_names(pre + mid + suf)
                    key = tuple(toks)
                    if key not in seen and len(toks) <= 120:
                        seen.add(key)
                        out.append((label, toks))
        self._pairs = out
        return out

    def stratified_start(self):
        kinds = self.start_kinds
        core = [k for k in ('select', 'union') if k in kinds]
        dml = [k for k in ('insert', 'update', 'delete', 'create_table') if k in kinds]
        rest = [k for k in kinds if k not in core and k not in dml]
        return st.one_of(st.sampled_from(core), st.sampled_from(core), st.sampled_from(dml),
                         st.sampled_from(rest), st.sampled_from(rest))


_gens = {}


def get(dialect):
    if dialect not in _gens:
        _gens[dialect] = GrammarGen(dialect)
    return _gens[dialect]


def join_tokens(tokens):
    return ' '.join(tokens)
