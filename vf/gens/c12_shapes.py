"""C12 only: statement shapes and values on top of vf/gens/holes.py (which stays as it is).

* `setop-chain`     — 3..4 selects joined by set operators, flat (`a UNION b EXCEPT c`, the left operand of the outer
                      operation is a set operation) or with one parenthesised pair on either side; tag `setop:chain`;
* `cte-setop`       — `WITH w AS ( .. ) ( select .. FROM w .. UNION select .. )`: the parser keeps the list of CTEs on
                      the set operation (parenthesised form) or on its first select (bare form); tag `cte:on-setop`
                      resp. `cte:before-setop`;
* `update-twice`    — UPDATE whose SET list assigns one column more than once; tag `update:set-column-twice`;
* values            — the value None (printed NULL) next to the ints / floats / strings of holes.value(); literal() also
                      prints booleans (TRUE / FALSE) and strings holding quote characters (c12_more.value()).

`text()` / `literal()` are those of holes.py plus None -> NULL.
"""
from hypothesis import strategies as st

from vf.gens import holes
from vf.gens.model import SCHEMA

SETOPS = ['UNION', 'UNION ALL', 'UNION', 'INTERSECT', 'EXCEPT']
MECHANISM_TAGS = ('setop:chain', 'cte:on-setop', 'cte:before-setop', 'update:set-column-twice')


def literal(v):
    if v is None:
        return 'NULL'
    if isinstance(v, bool):
        return 'TRUE' if v else 'FALSE'
    if isinstance(v, str) and ("'" in v or '"' in v):
        assert '\\' not in v
        return "'" + v.replace("'", "''") + "'"
    return holes.literal(v)


def text(parts, values=None, drop=()):
    """`?` text (values None) or inlined text; as holes.text, with None printed as NULL."""
    out = []
    i = 0
    for p in parts:
        if isinstance(p, dict):
            s = '?' if values is None else literal(values[i])
            i += 1
            d = p.get('d') or ''
            if d.startswith('paren') and 'paren' not in drop:
                s = '( ' + s + ' )'
            if 'alias:' in d and 'alias' not in drop:
                s = s + ' AS ' + d.split('alias:', 1)[1]
            out.append(s)
        else:
            out.append(p)
    return ' '.join(out)


def value():
    return st.integers(0, 9).flatmap(lambda k: st.none() if k == 0 else holes.value())


def values(n):
    return st.lists(value(), min_size=n, max_size=n)


class Gen(holes.Gen):
    def simple_select(self, scope, frm=None, cols=None):
        """A flat one-table select with holes in WHERE (and sometimes the select list), inside `scope`."""
        self.scope.append(scope)
        try:
            if frm is None:
                t, ref = self.table()
                frm, cols = [ref], [c for c, _ in SCHEMA[t]]
            out = ['SELECT']
            if self.chance(1, 4):
                out += [self.hole('target', 'operand', 'alias:' + self.fresh('c')), ',']
            out += [self.column(cols), 'FROM'] + frm + ['WHERE'] + self.cond('where', cols, 1)
            return out
        finally:
            self.scope.pop()

    def operand_select(self, scope, depth):
        if self.chance(1, 2):
            return self.simple_select(scope)
        return self.select_in(scope, depth, allow_star=False)[0]

    def setop_chain(self, depth):
        k = self.draw(st.integers(3, 4))
        ops = [self.pick(SETOPS) for _ in range(k - 1)]
        sels = [self.operand_select('union-%d' % (i + 1), depth) for i in range(k)]
        group = self.pick(['flat', 'flat', 'paren-left', 'paren-right'])
        out = []
        if group == 'paren-left':
            out = ['('] + sels[0] + [ops[0]] + sels[1] + [')']
            rest = list(zip(ops[1:], sels[2:]))
        else:
            out = list(sels[0])
            rest = list(zip(ops, sels[1:]))
        if group == 'paren-right':
            (o1, s1), (o2, s2) = rest[-2], rest[-1]
            for o, s in rest[:-2]:
                out += [o] + s
            out += [o1, '('] + s1 + [o2] + s2 + [')']
        else:
            for o, s in rest:
                out += [o] + s
        self.tags.add('setop:chain')
        self.tags.add('setop-chain:' + group)
        self.tags.add('setop-chain:n=%d' % k)
        return out

    def cte_setop(self, depth):
        name = self.fresh('w')
        inner, names = self.select_in('cte', depth, named_targets=True)
        cols = [f'{name}.{n}' for n in names]
        first = self.simple_select('union-1', [name], cols)
        n_more = self.draw(st.integers(1, 2))
        body = list(first)
        for i in range(n_more):
            body += [self.pick(SETOPS)] + self.operand_select('union-%d' % (i + 2), depth)
        if n_more > 1:
            self.tags.add('setop:chain')
        if self.chance(2, 3):
            self.tags.add('cte:on-setop')
            body = ['('] + body + [')']
        else:
            self.tags.add('cte:before-setop')
        return ['WITH', name, 'AS', '('] + inner + [')'] + body

    def update_twice(self, depth):
        t, ref = self.table()
        cols = [c for c, _ in SCHEMA[t]]
        k = self.draw(st.integers(2, 4))
        setcols = [self.column(cols) for _ in range(k - 1)]
        setcols.insert(self.draw(st.integers(0, k - 1)), self.pick(setcols))     # one of them a second time
        out = ['UPDATE', ref, 'SET']
        for i, col in enumerate(setcols):
            if i:
                out.append(',')
            out += [col, '='] + self.operand('set', cols, 0, 'operand', p_hole=7)
        if self.chance(4, 5):
            out += ['WHERE'] + self.cond('where', cols, depth)
        self.tags.add('update:set-column-twice')
        return out

    def statement(self):
        r = self.draw(st.integers(0, 19))
        d = self.max_depth - 1
        if r == 0 or r == 1:
            self.tags.add('stmt:setop-chain')
            return self.setop_chain(d - 1 if d > 0 else 0)
        if r == 2 or r == 3:
            self.tags.add('stmt:cte-setop')
            return self.cte_setop(d - 1 if d > 0 else 0)
        if r == 4:
            self.tags.add('stmt:update-twice')
            return self.update_twice(d)
        return super().statement()


@st.composite
def template(draw, catalog='names', predictor=False, max_depth=2):
    g = Gen(draw, catalog, predictor, max_depth)
    parts = g.statement()
    return {'parts': holes.merge_text(parts), 'tags': sorted(g.tags)}
