"""C01 — bounded-exhaustive statement shapes for the printers that a grammar derivation reaches only by luck.

Every function returns a deterministic list of (dialect, sql, origin).  Nothing here is an oracle: a text that a dialect
does not accept is just counted as rejected by the check.
"""
import itertools
import re

DIALECTS = ('mindsdb', 'mysql', 'sqlite')


def lexer_words(lexcls):
    """Keyword spellings of a lexer: token names and the halves of the names written with an underscore."""
    out = set()
    for w in lexcls.tokens:
        out.add(w)
        out.update(x for x in w.split('_') if x)
    return sorted(out)


def two_word_tokens(lexcls):
    """(first, second) of the tokens of a lexer whose pattern spans two words (GROUP BY, KNOWLEDGE BASE ...)."""
    out = []
    for w in lexcls.tokens:
        pat = getattr(lexcls, w, None)
        if isinstance(pat, str) and w.count('_') == 1 and ('\\s' in pat or ' ' in pat):
            a, b = w.split('_')
            if re.fullmatch(pat, f'{a} {b}', flags=re.I):
                out.append((a, b))
    return sorted(out)


def function_names(lex):
    """Every keyword of the dialect (and blank names) written between back-quotes as a function name / namespace."""
    out = []
    for d in DIALECTS:
        for w in lexer_words(lex[d]):
            w = w.lower()
            for args in ('', '1', 'a, b'):
                out.append((d, f'SELECT `{w}`({args})', 'shape:funcname'))
            out.append((d, f'SELECT `{w.upper()}`(1) FROM t WHERE `{w}`(a) > 1', 'shape:funcname'))
            if d == 'mindsdb':
                out.append((d, f'SELECT `{w}`.f(1)', 'shape:funcname'))
                out.append((d, f'SELECT `{w}`.`{w}`()', 'shape:funcname'))
        for blank in (' ', '  ', '\t', ' a', 'a ', 'a  b', 'A B'):
            out.append((d, f'SELECT `{blank}`(1)', 'shape:funcname'))
            if d == 'mindsdb':
                out.append((d, f'SELECT `{blank}`.f(1)', 'shape:funcname'))
    return out


SHOW_WORDS = ['SLAVE', 'REPLICA', 'REPLICAS', 'HOSTS', 'STATUS', 'MASTER', 'ENGINE', 'ENGINES', 'FUNCTION', 'PROCEDURE',
              'CODE', 'BINARY', 'LOGS', 'TABLE', 'TABLES', 'INDEX', 'INDEXES', 'KEYS', 'OPEN', 'CHARACTER', 'SET',
              'MUTEX', 'PRIVILEGES', 'PROFILES', 'TRIGGERS', 'DATABASES', 'x']
SPELLINGS = (str.upper, str.lower, str.title)


def show_spellings():
    """SHOW <word> [<word> [name]] over the vocabulary of SHOW in three spellings (the category is matched as text)."""
    out = []
    for d in DIALECTS:
        for sp in SPELLINGS:
            for a in SHOW_WORDS:
                out.append((d, f'{sp("SHOW")} {sp(a)}', 'shape:show-spelling'))
                out.append((d, f'{sp("SHOW")} {sp(a)} FROM x', 'shape:show-spelling'))
        for sp in SPELLINGS[:2]:
            for a, b in itertools.product(SHOW_WORDS, repeat=2):
                out.append((d, f'SHOW {sp(a)} {sp(b)}', 'shape:show-spelling'))
                out.append((d, f'SHOW {sp(a)} {sp(b)} x', 'shape:show-spelling'))
    return out


def lowercase_outside_quotes(toks):
    return [t if t[:1] in '\'"`@' else t.lower() for t in toks]


def adjacent_names(lex):
    """Two names next to each other that together spell a two-word keyword; each half bare or quoted."""
    out = []
    templates = ['DESCRIBE {a} {b}', 'SHOW ENGINE {a} {b}', 'SHOW {a} {b}', 'SHOW {a} {b} x', 'SHOW x {a} {b}',
                 'SELECT {a} {b} FROM t', 'SELECT 1 FROM {a} {b}', 'SELECT x AS {a} {b}', 'DESCRIBE x.{a} {b}',
                 'CREATE TABLE t ({a} {b})', 'SET {a} {b}', 'SHOW {a} {b} FROM x', 'DROP TABLE {a} {b}']
    for d in DIALECTS:
        for a, b in two_word_tokens(lex[d]):
            for sp in (str.lower, str.upper):
                for qa, qb in ((1, 0), (0, 1), (1, 1)):
                    x = f'`{sp(a)}`' if qa else sp(a)
                    y = f'`{sp(b)}`' if qb else sp(b)
                    for t in templates:
                        out.append((d, t.format(a=x, b=y), 'shape:adjacent-names'))
    return out


PREDICTOR_HEADS = ['CREATE MODEL m PREDICT a', 'CREATE MODEL m FROM i (select 1) PREDICT a, b', 'RETRAIN m PREDICT a',
                   'CREATE MODEL m PREDICT a AS x', 'RETRAIN m FROM i (select 1) PREDICT a', 'RETRAIN m',
                   'CREATE PREDICTOR m PREDICT a', 'CREATE ANOMALY DETECTION MODEL m PREDICT a']
PREDICTOR_CLAUSES = ['USING x=1', 'HORIZON 5', 'WINDOW 3', 'ORDER BY b', 'GROUP BY c']


def predictor_clause_orders():
    """The clauses behind PREDICT are accepted in any order: every ordered subset of them."""
    out = []
    for head in PREDICTOR_HEADS:
        for k in range(1, len(PREDICTOR_CLAUSES) + 1):
            if k > 3 and head != PREDICTOR_HEADS[0]:
                continue
            for perm in itertools.permutations(PREDICTOR_CLAUSES, k):
                out.append(('mindsdb', head + ' ' + ' '.join(perm), 'shape:predictor-clauses'))
    return out


# names that are one part although they hold dots / back-quotes / nothing but dots
ODD_NAMES = ['.a', 'a.', '.', '..', 'a..b', 'a.b', '`', 'a`b', '`a`', 'a b', ' ', 'a.b.c', '*', 'a.*']
KW_KEY_TEMPLATES = ['SELECT 1 FROM t USING {k}=1', 'SELECT 1 FROM t USING {k}=1, a=2', 'UPDATE AGENT a SET {k}=1',
                    'CREATE MODEL m PREDICT p USING {k}=1', "CREATE AGENT a USING model='m', {k}=1",
                    'CREATE ML_ENGINE e FROM h USING {k}=1', 'EVALUATE acc FROM (select 1) USING {k}=1',
                    "CREATE DATABASE d WITH ENGINE='x', PARAMETERS={{\"{n}\": 1}}", 'UPDATE SKILL s SET {k}=1, b=2']
NAME_TEMPLATES = {
    'mindsdb': ['SELECT * FROM {q}', 'SELECT a AS {s} FROM t', 'SELECT a AS {q} FROM t', 'DROP TABLE {q}', 'SELECT t.{q} FROM t',
                'DESCRIBE {q} c', 'SELECT a OVER () {q}', 'SELECT * FROM t AS {q}', 'SELECT a {s} FROM t', 'SELECT * FROM t {q}',
                'SELECT * FROM (select 1) AS {q}', 'SELECT * FROM t1 JOIN t2 AS {q}', 'CREATE TABLE {q} (a int)', 'USE {q}',
                'SELECT * FROM {b}', 'SELECT a AS {b} FROM t', 'WITH {q} AS (select 1) SELECT 1', 'INSERT INTO t ({q}) VALUES (1)'],
    'mysql': ['SELECT a AS {q} FROM t', 'SELECT a AS {s} FROM t', 'SELECT a {q} FROM t', 'SELECT a {s} FROM t', 'SELECT * FROM t AS {q}',
              'SELECT * FROM t {q}', 'SELECT * FROM (select 1) AS {q}', 'SELECT * FROM t1 JOIN t2 AS {q}', 'SELECT * FROM {b}',
              'SELECT a AS {b} FROM t'],
    'sqlite': ['SELECT a AS {b} FROM t', 'SELECT * FROM {b}', 'SELECT * FROM t AS {b}'],
}
NAME_VALUE_TEMPLATES = ["CREATE CHATBOT c USING database={v}", "CREATE CHATBOT c USING database='d', agent={v}",
                        "CREATE CHATBOT c USING database='d', model={v}", 'CREATE KNOWLEDGE_BASE k USING storage={v}',
                        'CREATE KNOWLEDGE_BASE k USING model={v}', 'CREATE KNOWLEDGE_BASE k USING model={v}, storage=s, x=1',
                        'CREATE KNOWLEDGE_BASE k FROM (select 1) USING model=m, storage={v}']
NON_NAME_VALUES = ['1', '0', '1.5', '[1]', '{"a": 1}', 'false', 'true', 'null', "''", '[]', '{}', 'a.b', 'a']


def odd_names():
    """Names with dots / back-quotes written as one quoted part, in every place that turns a string into a name."""
    out = []
    for n in ODD_NAMES:
        bq = None if '`' in n else f'`{n}`'
        dq, sq = f'"{n}"', f"'{n}'"
        for t in KW_KEY_TEMPLATES:
            for k in (bq, dq):
                if k is not None:
                    out.append(('mindsdb', t.format(k=k, n=n), 'shape:odd-name'))
        for d, ts in NAME_TEMPLATES.items():
            for t in ts:
                if '{b}' in t and bq is None:
                    continue
                out.append((d, t.format(q=dq, s=sq, b=bq), 'shape:odd-name'))
        for t in NAME_VALUE_TEMPLATES:
            for v in (sq, dq, bq):
                if v is not None:
                    out.append(('mindsdb', t.format(v=v), 'shape:odd-name'))
    for t in NAME_VALUE_TEMPLATES:
        for v in NON_NAME_VALUES:
            out.append(('mindsdb', t.format(v=v), 'shape:name-parameter'))
    return out


# string values (no back-slash here: the escaping of back-slashes is the open finding listed for C04 / C07)
STRING_VALUES = ["it's", "'", "''", 'a"b', '"', "a'b\"c", "'a'", 'a`b', 'a b', '', ' ', "%'", 'a\nb']
STRING_TEMPLATES = ['SELECT {s}', 'SELECT {s}, {s}', 'SELECT * FROM t WHERE a = {s}', 'SHOW TABLES LIKE {s}', 'SET names {s}',
                    'SET charset {s}', 'INSERT INTO t (a) VALUES ({s})', 'UPDATE t SET a = {s}', 'DELETE FROM t WHERE a = {s}',
                    'SELECT f({s})', 'SELECT a FROM t WHERE a IN ({s}, 1)', 'SELECT a FROM t WHERE a LIKE {s}',
                    'SELECT CASE WHEN a = {s} THEN {s} END', 'SELECT CAST({s} AS text)', 'SET x = {s}', 'SELECT {s} AS a',
                    'SHOW VARIABLES WHERE a = {s}', 'SELECT DATE {s}', 'SELECT INTERVAL {s}']
MINDSDB_STRING_TEMPLATES = ['CREATE JOB j (select 1) START {s}', 'CREATE JOB j (select 1) END {s}', 'CREATE JOB j (select 1) EVERY {s}',
                            'CREATE JOB j (select 1) START {s} END {s} EVERY {s}', 'CREATE JOB j (select 1) START {s} END "x"',
                            'CREATE DATABASE d ENGINE {s}', 'CREATE DATABASE d WITH ENGINE = {s}', 'SELECT * FROM t USING a = {s}',
                            "CREATE VIEW v AS (select {s})", 'CREATE TRIGGER t ON d.x (select {s})']


def spell_string(value, d):
    """The spellings of a string value that the dialect can read (mysql / sqlite have no escapes at all)."""
    out = []
    if d == 'mindsdb':
        out.append("'" + value.replace("'", "\\'") + "'")
        out.append("'" + value.replace("'", "''") + "'")
        out.append('"' + value.replace('"', '\\"') + '"')
    else:
        if "'" not in value:
            out.append("'" + value + "'")
        if '"' not in value:
            out.append('"' + value + '"')
    return sorted(set(out))


def string_values():
    out = []
    for d in DIALECTS:
        for v in STRING_VALUES:
            for s in spell_string(v, d):
                for t in STRING_TEMPLATES + (MINDSDB_STRING_TEMPLATES if d == 'mindsdb' else []):
                    out.append((d, t.replace('{s}', s), 'shape:string-value'))
        if d == 'mindsdb':
            for u in ("`it's`", '`a b`', 'day', '`day`'):
                out.append((d, f'CREATE JOB j (select 1) EVERY 2 {u}', 'shape:string-value'))
                out.append((d, f'CREATE JOB j (select 1) EVERY {u}', 'shape:string-value'))
                out.append((d, f'CREATE JOB j (select 1) START {u}', 'shape:string-value'))
    return out


DIGITS = (1, 15, 17, 22, 100, 308, 309, 310, 400)
NUMBER_TEMPLATES = ['SELECT {n}', 'SELECT a FROM t WHERE a > {n}', 'SELECT -{n}', 'INSERT INTO t (a) VALUES ({n})']


def long_numbers():
    """Number literals with many digits (beyond the exactness and beyond the range of a float)."""
    out = []
    for d in DIALECTS:
        for k in DIGITS:
            for n in ('1' + '0' * k + '.0', '9' * k + '.9', '0.' + '0' * k + '1', '1' + '0' * k, '1.' + '1' * k):
                for t in NUMBER_TEMPLATES + (['SELECT * FROM t USING a={n}'] if d == 'mindsdb' else []):
                    out.append((d, t.format(n=n), 'shape:long-number'))
    return out


def all_shapes(lex):
    return (function_names(lex) + show_spellings() + adjacent_names(lex) + predictor_clause_orders() + odd_names()
            + string_values() + long_numbers())
