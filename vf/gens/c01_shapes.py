"""C01 — bounded-exhaustive statement shapes for the printers that a grammar derivation reaches only by luck.

Every function returns a deterministic list of (dialect, sql, origin).  Nothing here is an oracle: a text that a dialect
does not accept is just counted as rejected by the check.
"""
import itertools
import re

DIALECTS = ('mindsdb', 'mysql', 'sqlite')


def lexer_words(lexcls):
    """Keyword spellings of a lexer: token names and the halves of the names written with an underscore."""
    out = set()
    for w in lexcls.tokens:
        out.add(w)
        out.update(x for x in w.split('_') if x)
    return sorted(out)


def two_word_tokens(lexcls):
    """(first, second) of the tokens of a lexer whose pattern spans two words (GROUP BY, KNOWLEDGE BASE ...)."""
    out = []
    for w in lexcls.tokens:
        pat = getattr(lexcls, w, None)
        if isinstance(pat, str) and w.count('_') == 1 and ('\\s' in pat or ' ' in pat):
            a, b = w.split('_')
            if re.fullmatch(pat, f'{a} {b}', flags=re.I):
                out.append((a, b))
    return sorted(out)


def function_names(lex):
    """Every keyword of the dialect (and blank names) written between back-quotes as a function name / namespace."""
    out = []
    for d in DIALECTS:
        for w in lexer_words(lex[d]):
            w = w.lower()
            for args in ('', '1', 'a, b'):
                out.append((d, f'SELECT `{w}`({args})', 'shape:funcname'))
            out.append((d, f'SELECT `{w.upper()}`(1) FROM t WHERE `{w}`(a) > 1', 'shape:funcname'))
            if d == 'mindsdb':
                out.append((d, f'SELECT `{w}`.f(1)', 'shape:funcname'))
                out.append((d, f'SELECT `{w}`.`{w}`()', 'shape:funcname'))
        for blank in (' ', '  ', '\t', ' a', 'a ', 'a  b', 'A B'):
            out.append((d, f'SELECT `{blank}`(1)', 'shape:funcname'))
            if d == 'mindsdb':
                out.append((d, f'SELECT `{blank}`.f(1)', 'shape:funcname'))
    return out


SHOW_WORDS = ['SLAVE', 'REPLICA', 'REPLICAS', 'HOSTS', 'STATUS', 'MASTER', 'ENGINE', 'ENGINES', 'FUNCTION', 'PROCEDURE',
              'CODE', 'BINARY', 'LOGS', 'TABLE', 'TABLES', 'INDEX', 'INDEXES', 'KEYS', 'OPEN', 'CHARACTER', 'SET',
              'MUTEX', 'PRIVILEGES', 'PROFILES', 'TRIGGERS', 'DATABASES', 'x']
SPELLINGS = (str.upper, str.lower, str.title)


def show_spellings():
    """SHOW <word> [<word> [name]] over the vocabulary of SHOW in three spellings (the category is matched as text)."""
    out = []
    for d in DIALECTS:
        for sp in SPELLINGS:
            for a in SHOW_WORDS:
                out.append((d, f'{sp("SHOW")} {sp(a)}', 'shape:show-spelling'))
                out.append((d, f'{sp("SHOW")} {sp(a)} FROM x', 'shape:show-spelling'))
        for sp in SPELLINGS[:2]:
            for a, b in itertools.product(SHOW_WORDS, repeat=2):
                out.append((d, f'SHOW {sp(a)} {sp(b)}', 'shape:show-spelling'))
                out.append((d, f'SHOW {sp(a)} {sp(b)} x', 'shape:show-spelling'))
    return out


def lowercase_outside_quotes(toks):
    return [t if t[:1] in '\'"`@' else t.lower() for t in toks]


def adjacent_names(lex):
    """Two names next to each other that together spell a two-word keyword; each half bare or quoted."""
    out = []
    templates = ['DESCRIBE {a} {b}', 'SHOW ENGINE {a} {b}', 'SHOW {a} {b}', 'SHOW {a} {b} x', 'SHOW x {a} {b}',
                 'SELECT {a} {b} FROM t', 'SELECT 1 FROM {a} {b}', 'SELECT x AS {a} {b}', 'DESCRIBE x.{a} {b}',
                 'CREATE TABLE t ({a} {b})', 'SET {a} {b}', 'SHOW {a} {b} FROM x', 'DROP TABLE {a} {b}']
    for d in DIALECTS:
        for a, b in two_word_tokens(lex[d]):
            for sp in (str.lower, str.upper):
                for qa, qb in ((1, 0), (0, 1), (1, 1)):
                    x = f'`{sp(a)}`' if qa else sp(a)
                    y = f'`{sp(b)}`' if qb else sp(b)
                    for t in templates:
                        out.append((d, t.format(a=x, b=y), 'shape:adjacent-names'))
    return out


PREDICTOR_HEADS = ['CREATE MODEL m PREDICT a', 'CREATE MODEL m FROM i (select 1) PREDICT a, b', 'RETRAIN m PREDICT a',
                   'CREATE MODEL m PREDICT a AS x', 'RETRAIN m FROM i (select 1) PREDICT a', 'RETRAIN m',
                   'CREATE PREDICTOR m PREDICT a', 'CREATE ANOMALY DETECTION MODEL m PREDICT a']
PREDICTOR_CLAUSES = ['USING x=1', 'HORIZON 5', 'WINDOW 3', 'ORDER BY b', 'GROUP BY c']


def predictor_clause_orders():
    """The clauses behind PREDICT are accepted in any order: every ordered subset of them."""
    out = []
    for head in PREDICTOR_HEADS:
        for k in range(1, len(PREDICTOR_CLAUSES) + 1):
            if k > 3 and head != PREDICTOR_HEADS[0]:
                continue
            for perm in itertools.permutations(PREDICTOR_CLAUSES, k):
                out.append(('mindsdb', head + ' ' + ' '.join(perm), 'shape:predictor-clauses'))
    return out


# names that are one part although they hold dots / back-quotes / nothing but dots
ODD_NAMES = ['.a', 'a.', '.', '..', 'a..b', 'a.b', '`', 'a`b', '`a`', 'a b', ' ', 'a.b.c', '*', 'a.*']
KW_KEY_TEMPLATES = ['SELECT 1 FROM t USING {k}=1', 'SELECT 1 FROM t USING {k}=1, a=2', 'UPDATE AGENT a SET {k}=1',
                    'CREATE MODEL m PREDICT p USING {k}=1', "CREATE AGENT a USING model='m', {k}=1",
                    'CREATE ML_ENGINE e FROM h USING {k}=1', 'EVALUATE acc FROM (select 1) USING {k}=1',
                    "CREATE DATABASE d WITH ENGINE='x', PARAMETERS={{\"{n}\": 1}}", 'UPDATE SKILL s SET {k}=1, b=2']
NAME_TEMPLATES = {
    'mindsdb': ['SELECT * FROM {q}', 'SELECT a AS {s} FROM t', 'SELECT a AS {q} FROM t', 'DROP TABLE {q}', 'SELECT t.{q} FROM t',
                'DESCRIBE {q} c', 'SELECT a OVER () {q}', 'SELECT * FROM t AS {q}', 'SELECT a {s} FROM t', 'SELECT * FROM t {q}',
                'SELECT * FROM (select 1) AS {q}', 'SELECT * FROM t1 JOIN t2 AS {q}', 'CREATE TABLE {q} (a int)', 'USE {q}',
                'SELECT * FROM {b}', 'SELECT a AS {b} FROM t', 'WITH {q} AS (select 1) SELECT 1', 'INSERT INTO t ({q}) VALUES (1)'],
    'mysql': ['SELECT a AS {q} FROM t', 'SELECT a AS {s} FROM t', 'SELECT a {q} FROM t', 'SELECT a {s} FROM t', 'SELECT * FROM t AS {q}',
              'SELECT * FROM t {q}', 'SELECT * FROM (select 1) AS {q}', 'SELECT * FROM t1 JOIN t2 AS {q}', 'SELECT * FROM {b}',
              'SELECT a AS {b} FROM t'],
    'sqlite': ['SELECT a AS {b} FROM t', 'SELECT * FROM {b}', 'SELECT * FROM t AS {b}'],
}
NAME_VALUE_TEMPLATES = ["CREATE CHATBOT c USING database={v}", "CREATE CHATBOT c USING database='d', agent={v}",
                        "CREATE CHATBOT c USING database='d', model={v}", 'CREATE KNOWLEDGE_BASE k USING storage={v}',
                        'CREATE KNOWLEDGE_BASE k USING model={v}', 'CREATE KNOWLEDGE_BASE k USING model={v}, storage=s, x=1',
                        'CREATE KNOWLEDGE_BASE k FROM (select 1) USING model=m, storage={v}']
NON_NAME_VALUES = ['1', '0', '1.5', '[1]', '{"a": 1}', 'false', 'true', 'null', "''", '[]', '{}', 'a.b', 'a']


def odd_names():
    """Names with dots / back-quotes written as one quoted part, in every place that turns a string into a name."""
    out = []
    for n in ODD_NAMES:
        bq = None if '`' in n else f'`{n}`'
        dq, sq = f'"{n}"', f"'{n}'"
        for t in KW_KEY_TEMPLATES:
            for k in (bq, dq):
                if k is not None:
                    out.append(('mindsdb', t.format(k=k, n=n), 'shape:odd-name'))
        for d, ts in NAME_TEMPLATES.items():
            for t in ts:
                if '{b}' in t and bq is None:
                    continue
                out.append((d, t.format(q=dq, s=sq, b=bq), 'shape:odd-name'))
        for t in NAME_VALUE_TEMPLATES:
            for v in (sq, dq, bq):
                if v is not None:
                    out.append(('mindsdb', t.format(v=v), 'shape:odd-name'))
    for t in NAME_VALUE_TEMPLATES:
        for v in NON_NAME_VALUES:
            out.append(('mindsdb', t.format(v=v), 'shape:name-parameter'))
    return out


# string values without back-slash (BACKSLASH_VALUES below hold them: their printing is an open finding of its own)
STRING_VALUES = ["it's", "'", "''", 'a"b', '"', "a'b\"c", "'a'", 'a`b', 'a b', '', ' ', "%'", 'a\nb']
STRING_TEMPLATES = ['SELECT {s}', 'SELECT {s}, {s}', 'SELECT * FROM t WHERE a = {s}', 'SHOW TABLES LIKE {s}', 'SET names {s}',
                    'SET charset {s}', 'INSERT INTO t (a) VALUES ({s})', 'UPDATE t SET a = {s}', 'DELETE FROM t WHERE a = {s}',
                    'SELECT f({s})', 'SELECT a FROM t WHERE a IN ({s}, 1)', 'SELECT a FROM t WHERE a LIKE {s}',
                    'SELECT CASE WHEN a = {s} THEN {s} END', 'SELECT CAST({s} AS text)', 'SET x = {s}', 'SELECT {s} AS a',
                    'SHOW VARIABLES WHERE a = {s}', 'SELECT DATE {s}', 'SELECT INTERVAL {s}']
MINDSDB_STRING_TEMPLATES = ['CREATE JOB j (select 1) START {s}', 'CREATE JOB j (select 1) END {s}', 'CREATE JOB j (select 1) EVERY {s}',
                            'CREATE JOB j (select 1) START {s} END {s} EVERY {s}', 'CREATE JOB j (select 1) START {s} END "x"',
                            'CREATE DATABASE d ENGINE {s}', 'CREATE DATABASE d WITH ENGINE = {s}', 'SELECT * FROM t USING a = {s}',
                            "CREATE VIEW v AS (select {s})", 'CREATE TRIGGER t ON d.x (select {s})']


def spell_string(value, d):
    """The spellings of a string value that the dialect can read (mysql / sqlite: only the doubled delimiter)."""
    out = []
    if d == 'mindsdb':
        out.append("'" + value.replace("'", "\\'") + "'")
        out.append("'" + value.replace("'", "''") + "'")
        out.append('"' + value.replace('"', '\\"') + '"')
    else:
        # no back-slash escapes; a doubled delimiter stands for the delimiter
        out.append("'" + value.replace("'", "''") + "'")
        out.append('"' + value.replace('"', '""') + '"')
    return sorted(set(out))


# values with back-slashes: alone, at the end, in front of a quote / double quote / back-slash / ordinary character
BACKSLASH_VALUES = ['\\', 'a\\', '\\\\', 'a\\b', "a\\'b", 'a\\"b', 'a\\\\b', '\\n', "it's\\", '\\a\\']


def spell_backslash_string(value, d):
    """Spellings of a value with back-slashes: the mindsdb dialect reads \\\\ \\' \\" as escapes and a back-slash before any other
    character (and before the closing quote) as itself; mysql / sqlite know no escape."""
    out = []
    if d == 'mindsdb':
        esc = value.replace('\\', '\\\\')
        out.append("'" + esc.replace("'", "\\'") + "'")
        out.append("'" + esc.replace("'", "''") + "'")
        out.append('"' + esc.replace('"', '\\"') + '"')
        if "'" not in value and '"' not in value and '\\\\' not in value and not value.endswith('\\'):
            out.append("'" + value + "'")           # a back-slash before an ordinary character needs no escape
    else:
        out.append("'" + value.replace("'", "''") + "'")
        out.append('"' + value.replace('"', '""') + '"')
    return sorted(set(out))


def backslash_values():
    out = []
    for d in DIALECTS:
        for v in BACKSLASH_VALUES:
            for s in spell_backslash_string(v, d):
                for t in STRING_TEMPLATES + (MINDSDB_STRING_TEMPLATES if d == 'mindsdb' else []):
                    out.append((d, t.replace('{s}', s), 'shape:backslash-value'))
    return out


def string_values():
    out = []
    for d in DIALECTS:
        for v in STRING_VALUES:
            for s in spell_string(v, d):
                for t in STRING_TEMPLATES + (MINDSDB_STRING_TEMPLATES if d == 'mindsdb' else []):
                    out.append((d, t.replace('{s}', s), 'shape:string-value'))
        if d == 'mindsdb':
            for u in ("`it's`", '`a b`', 'day', '`day`'):
                out.append((d, f'CREATE JOB j (select 1) EVERY 2 {u}', 'shape:string-value'))
                out.append((d, f'CREATE JOB j (select 1) EVERY {u}', 'shape:string-value'))
                out.append((d, f'CREATE JOB j (select 1) START {u}', 'shape:string-value'))
    return out


DIGITS = (1, 15, 17, 22, 100, 308, 309, 310, 400)
NUMBER_TEMPLATES = ['SELECT {n}', 'SELECT a FROM t WHERE a > {n}', 'SELECT -{n}', 'INSERT INTO t (a) VALUES ({n})']


def long_numbers():
    """Number literals with many digits (beyond the exactness and beyond the range of a float)."""
    out = []
    for d in DIALECTS:
        for k in DIGITS:
            for n in ('1' + '0' * k + '.0', '9' * k + '.9', '0.' + '0' * k + '1', '1' + '0' * k, '1.' + '1' * k):
                for t in NUMBER_TEMPLATES + (['SELECT * FROM t USING a={n}'] if d == 'mindsdb' else []):
                    out.append((d, t.format(n=n), 'shape:long-number'))
    return out


# ---- CREATE TABLE with a column list: every column form of the grammar x every key list
CT_HEADS = ['CREATE TABLE t', 'CREATE OR REPLACE TABLE t', 'CREATE TABLE IF NOT EXISTS db.t']
CT_BASE = ['{n} {t}', '{n} {t} DEFAULT {v}', '{n} {t} PRIMARY KEY', '{n} {t}({l})', '{n} {t}({l}) DEFAULT {v}']
CT_NULL = ['', ' NULL', ' NOT NULL']
CT_COLS = (('a', 'int', 'x', '1'), ('b', 'varchar', 'CURRENT_TIMESTAMP', '36'), ('c', 'char', 'y', '2'))
CT_NAMES = ['id', '`a b`', '`primary`', 'A']
CT_TYPES = ['int', 'VARCHAR', '`my type`', 'timestamp']
CT_DEFAULTS = ['x', 'CURRENT_TIMESTAMP', '`x y`', '`null`']


def create_table_columns():
    """CREATE TABLE t (<column>, ... [, PRIMARY KEY (<names>)]): the five column rules of the grammar with and without NULL /
    NOT NULL for one and two columns (all pairs) and three columns (base forms), with every key list over the columns
    (one column, several, both orders), the key list last / first / in the middle; names, types and defaults that are
    quoted or spelled like keywords."""
    out = []
    n = [0]

    def col(i, base, null=''):
        name, ty, dv, ln = CT_COLS[i]
        return base.format(n=name, t=ty, v=dv, l=ln) + null

    def emit(cols, key=None, pos='last', head=None):
        items = list(cols)
        if key:
            k = f'PRIMARY KEY ({", ".join(key)})'
            items.insert({'last': len(items), 'first': 0, 'middle': 1}[pos], k)
        n[0] += 1
        h = CT_HEADS[n[0] % len(CT_HEADS)] if head is None else head
        out.append(('mindsdb', f'{h} ({", ".join(items)})', 'shape:create-table'))

    forms = [(b, s) for b in CT_BASE for s in CT_NULL]
    for b, s in forms:
        for head in CT_HEADS:
            emit([col(0, b, s)], head=head)
            emit([col(0, b, s)], ['a'], head=head)
    for (b0, s0), (b1, s1) in itertools.product(forms, repeat=2):
        cols = [col(0, b0, s0), col(1, b1, s1)]
        for key in (None, ['a'], ['b'], ['a', 'b'], ['b', 'a']):
            emit(cols, key)
    for b0, b1 in itertools.product(CT_BASE, repeat=2):
        for key in (['a'], ['b'], ['a', 'b'], ['b', 'a']):
            for pos in ('first', 'middle'):
                emit([col(0, b0), col(1, b1)], key, pos)
    for b0, b1, b2 in itertools.product(CT_BASE, repeat=3):
        for key in (['a'], ['b'], ['c'], ['c', 'a'], ['a', 'b', 'c']):
            emit([col(0, b0), col(1, b1), col(2, b2)], key)
    for name, ty, dv, b in itertools.product(CT_NAMES, CT_TYPES, CT_DEFAULTS, CT_BASE):
        if '{v}' not in b and dv != CT_DEFAULTS[0]:
            continue
        c0 = b.format(n=name, t=ty, v=dv, l='10')
        out.append(('mindsdb', f'CREATE TABLE t ({c0}, PRIMARY KEY ({name}))', 'shape:create-table'))
        out.append(('mindsdb', f'CREATE TABLE t ({c0}, z text, PRIMARY KEY (z, {name}))', 'shape:create-table'))
    for d in ('mysql', 'sqlite'):       # (no column definitions in these grammars today: rejected, counted as such)
        for b in CT_BASE:
            out.append((d, f'CREATE TABLE t ({col(0, b)}, PRIMARY KEY (a))', 'shape:create-table'))
    return out


# ---- queries with clauses of their own (WITH in front / USING behind) in every position that takes a nested query
SETOP_WORDS = ['UNION', 'UNION ALL', 'INTERSECT', 'INTERSECT ALL', 'EXCEPT', 'EXCEPT ALL']
# {o} = the operation word, {A} {B} = operands
QUERY_FORMS = ['({A} {o} {B}) USING k=1',
               'WITH x AS (SELECT 1) ({A} {o} {B})',
               'WITH x AS (SELECT 1), y (c, d) AS (SELECT 1, 2) ({A} {o} {B})',
               "WITH x AS (SELECT 1) ({A} {o} {B}) USING k=1, j='v'",
               'WITH x AS (SELECT 1 {o} SELECT 2) ({A} {o} {B})',
               '({A} {o} {B})',
               '{A} {o} {B}',
               'WITH x AS (SELECT 1) {A} {o} {B}',
               '{A} {o} {B} USING k=1',
               'WITH x AS (SELECT 1) {A} USING k=1']
OWN_CLAUSE_FORMS = QUERY_FORMS[:5]
OPERAND_PAIRS = [('SELECT 1', 'SELECT 2'),
                 ('SELECT a FROM t1', 'SELECT a FROM t2 WHERE a > 1'),
                 ('(SELECT a FROM t1 LIMIT 1)', 'SELECT * FROM x'),
                 ('(SELECT 1 UNION SELECT 2)', 'SELECT 3'),
                 ('SELECT 3', '(SELECT 1 INTERSECT SELECT 2)'),
                 ('((SELECT 1 EXCEPT SELECT 2) USING b=2)', 'SELECT 3'),
                 ('SELECT 3', '(WITH z AS (SELECT 1) (SELECT 1 UNION ALL SELECT 2))')]
QUERY_CONTEXTS = ['{X}', 'SELECT * FROM ({X}) AS t', 'SELECT * FROM ({X})', 'SELECT * FROM ({X}) t',
                  'SELECT * FROM t1 JOIN ({X}) AS t ON t1.a = t.a', 'SELECT * FROM ({X}) AS t JOIN t2', 'SELECT * FROM t1, ({X}) AS t',
                  'SELECT * FROM t1 LEFT JOIN ({X}) ON 1 = 1', 'SELECT * FROM (({X})) AS t',
                  'SELECT * FROM t WHERE a IN ({X})', 'SELECT * FROM t WHERE a NOT IN ({X})', 'SELECT * FROM t WHERE EXISTS ({X})',
                  'SELECT * FROM t WHERE a = ({X})', 'SELECT ({X})', 'SELECT ({X}) AS c, 1', 'SELECT f(({X}))', 'SELECT f(1, ({X}))',
                  'SELECT CASE WHEN a THEN ({X}) END', 'SELECT -({X})', 'SELECT ({X}) + 1', 'SELECT * FROM t ORDER BY ({X})',
                  'SELECT * FROM t WHERE a BETWEEN ({X}) AND 2', 'SELECT a FROM t GROUP BY a HAVING a > ({X})',
                  'WITH c AS ({X}) SELECT * FROM c', 'CREATE TABLE t ({X})', 'CREATE TABLE t {X}', 'CREATE VIEW v AS ({X})',
                  'INSERT INTO t {X}', 'INSERT INTO t (a) {X}', 'INSERT INTO t ({X})', 'UPDATE t SET a = ({X})',
                  'DELETE FROM t WHERE a IN ({X})', 'UPDATE t SET a=1 FROM ({X}) AS s WHERE t.a = s.a',
                  'SELECT 3 UNION ({X})', '({X}) UNION SELECT 3', 'SELECT 3 EXCEPT ALL ({X}) ', '(({X}) INTERSECT SELECT 3) USING q=1',
                  'SELECT * FROM (SELECT * FROM ({X}) AS u) AS t', 'SELECT * FROM t WHERE a IN (SELECT b FROM ({X}) AS u)']
CORE_CONTEXTS = [QUERY_CONTEXTS[i] for i in (0, 1, 2, 4, 9, 12, 13, 23, 33)]


def nested_queries():
    """A query that has clauses of its own -- WITH in front of / USING behind a parenthesised UNION / INTERSECT / EXCEPT, or
    of a plain select -- as the whole statement, in FROM (with / without alias, join operand), in expressions (IN, EXISTS,
    comparison, target, argument, CASE, ORDER BY ...), as CTE body, in CREATE TABLE / VIEW / INSERT / UPDATE / DELETE and as
    operand of another set operation: every context x every form x every operation word (simple operands), and the forms
    with own clauses x operand shapes (parenthesised / nested operations with their own clauses) in the core contexts."""
    out = []
    for ctx in QUERY_CONTEXTS:
        for form in QUERY_FORMS:
            for o in SETOP_WORDS:
                if '{o}' not in form and o != SETOP_WORDS[0]:
                    continue
                a, b = OPERAND_PAIRS[0]
                out.append(('mindsdb', ctx.format(X=form.format(A=a, B=b, o=o)), 'shape:nested-query'))
    i = 0
    for ctx in CORE_CONTEXTS:
        for form in OWN_CLAUSE_FORMS:
            for a, b in OPERAND_PAIRS[1:]:
                for j in (0, 1):
                    i += 1
                    o = SETOP_WORDS[i % len(SETOP_WORDS)]
                    out.append(('mindsdb', ctx.format(X=form.format(A=a, B=b, o=o)), 'shape:nested-query'))
    for d in ('mysql', 'sqlite'):
        for ctx in CORE_CONTEXTS:
            for form in QUERY_FORMS:
                a, b = OPERAND_PAIRS[0]
                out.append((d, ctx.format(X=form.format(A=a, B=b, o='UNION')), 'shape:nested-query'))
    return out


def all_shapes(lex):
    return (function_names(lex) + show_spellings() + adjacent_names(lex) + predictor_clause_orders() + odd_names()
            + string_values() + backslash_values() + long_numbers() + create_table_columns() + nested_queries())
