"""C02 size families: inputs that are long in ONE dimension only (deterministic, bounded-exhaustive grids).

* chain cases  -- a left- / right-recursive or list construct repeated as often as fits into MAX_LEN characters with
  parenthesis depth <= MAX_DEPTH (the bounds inside which c02.judge holds the library to 'no RecursionError'), put into
  every expression / statement position of CONTEXTS, including positions where a grammar action rejects the statement
  and builds its message from the tree (SET <expr>, WHERE <non-operation>, a second alias, a column list of INSERT ..).
* lexeme cases -- ONE very long token (digits on both sides of Python's 4300-digit int/str conversion limit, long
  fraction / integer part of a float, long names, quoted names, strings, variables, comments) in every position that
  takes a number, a name or a string.

Nothing here looks at the library: the grids are plain text templates.
"""

MAX_LEN = 2000
MAX_DEPTH = 50


def _rep(head, unit, tail=''):
    """head + unit * n + tail with the largest n that keeps the whole statement within MAX_LEN"""
    def build(n):
        return head + unit * n + tail
    build.unit = len(unit)
    build.fixed = len(head) + len(tail)
    build.depth = None
    return build


def _nest(open_, core, close):
    """open_ * n + core + close * n ; n bounded by MAX_DEPTH when the unit opens a parenthesis"""
    def build(n):
        return open_ * n + core + close * n
    build.unit = len(open_) + len(close)
    build.fixed = len(core)
    build.depth = MAX_DEPTH if '(' in open_ else None
    return build


# expression-shaped chains (go into the {X} of CONTEXTS)
CHAINS = {
    'sum': _rep('1', '+1'),
    'sub-names': _rep('a', '-a'),
    'mul': _rep('a', '*2'),
    'div-mod': _rep('a', '/2%3'),
    'concat': _rep('a', '||a'),
    'and': _rep('a=1', ' and a=1'),
    'or': _rep('a=1', ' or b'),
    'not': _rep('', 'not ', 'a'),
    'neg': _rep('', '- ', 'a'),
    'neg-const': _rep('', '- ', '1'),
    'cast-op': _rep('a', '::int'),
    'cast-op-short': _rep('a', '::b'),
    'arrow': _rep('a', "->'b'"),
    'arrow2': _rep('a', "->>'b'"),
    'dots': _rep('a', '.a'),
    'dots-digits': _rep('a', '.1'),
    'is-null': _rep('a', ' is null'),
    'is-not-null': _rep('a', ' is not null'),
    'is-true': _rep('a', ' is true'),
    'in-flat': _rep('a in (1', ',1', ')'),
    'in-chain': _rep('a', ' in (1)'),
    'not-in-chain': _rep('a', ' not in (1)'),
    'between': _rep('a', ' between 1 and 2'),
    'like': _rep('a', " like 'x'"),
    'not-like': _rep('a', " not like 'x'"),
    'eq': _rep('a', '=a'),
    'lt': _rep('a', '<1'),
    'case-else': _nest('case when a then 1 else ', '0', ' end'),
    'case-when-list': _rep('case', ' when a then 1', ' end'),
    'func-nest': _nest('f(', 'a', ')'),
    'paren-nest': _nest('(', 'a', ')'),
    'cast-nest': _nest('cast(', 'a', ' as int)'),
    'func-args': _rep('f(a', ',a', ')'),
    'tuple': _rep('(1', ',1', ')'),
    'strings': _rep("'a'", " 'a'"),
    'exists-nest': _nest('exists (select ', '1', ')'),
    'subselect-nest': _nest('(select ', '1', ')'),
    'interval-sum': _rep('a', ' + interval 1 day'),
    'json-obj-nest': _nest('{"a": ', '1', '}'),
    'json-arr-nest': _nest('[', '1', ']'),
    'json-arr-flat': _rep('[1', ',1', ']'),
    'json-obj-flat': _rep('{"a": 1', ', "a": 1', '}'),
    'object-nest': _nest('f(x = ', '1', ')'),
    'window': _rep('f(a) over (partition by a', ', a', ')'),
    'name': _rep('', 'a', ''),
    'var-dots': _rep('@a', '.a'),
}

# positions for an expression (most accept it; the marked ones reject by a grammar action that prints the tree)
CONTEXTS = [
    'select {X}',
    'select {X} from t',
    'select {X} as b',
    'select {X} as a as b',               # second alias: message prints the column
    'select {X} a b',
    'select ({X})',
    'select f({X})',
    'select f(distinct {X})',
    'select case when {X} then 1 end',
    'select 1 in ({X})',
    'select (select {X})',
    'select * from (select {X}) as s',
    'select {X} union select 1',
    'select 1 from t where {X}',           # WHERE of a non-operation: message prints it
    'select 1 from t where a = ({X})',
    'select 1 from t group by {X}',
    'select 1 from t group by a having {X}',
    'select 1 from t order by {X}',
    'select 1 from t join u on {X}',
    'select 1 from t limit {X}',
    'select 1 from {X}',
    'select 1 from t as {X}',
    'select cast({X} as int)',
    'select f(a) over (partition by {X})',
    'insert into t values ({X})',
    'insert into t ({X}) values (1)',      # column list: message prints the entry
    'insert into t (a) select {X}',
    'update t set a = {X}',
    'update t set a = 1 where {X}',
    'delete from t where {X}',
    'set a = {X}',
    'set {X}',                             # sqlite: message prints the expression
    'set names {X}',
    'use {X}',
    'describe {X}',
    'drop table {X}',
    'show tables where {X}',
    'show tables from {X}',
    'explain {X}',
    'create table t ({X} int)',
    'create view v as (select {X})',
    'create model m predict p using a = {X}',
    'create model m from d (select {X}) predict p',
    'create model m predict {X}',
    'select * from t using a = {X}',
    'create database d with engine = {X}',
    'create job j (select {X}) every 1 hour',
    'create job j (select 1) start {X}',
    'create agent g using model = {X}',
    'create knowledge_base k using model = {X}',
    'create chatbot c using database = {X}',
    'evaluate {X} from (select 1)',
    'retrain {X}',
    '{X}',
]

# statement-shaped chains (complete statements, no context)
STATEMENT_CHAINS = {
    'union': _rep('select 1', ' union select 1'),
    'union-all': _rep('select 1', ' union all select a from t'),
    'intersect-except': _rep('select 1', ' intersect select 1 except select 1'),
    'join': _rep('select * from t', ' join t'),
    'join-on': _rep('select * from t', ' left join t on a=b'),
    'from-list': _rep('select * from t', ', t'),
    'columns': _rep('select a', ', a', ' from t'),
    'columns-alias': _rep('select a b', ', a b', ' from t'),
    'columns-star': _rep('select *', ', *', ' from t'),
    'group-list': _rep('select 1 from t group by a', ', a'),
    'order-list': _rep('select 1 from t order by a', ', a desc'),
    'values-rows': _rep('insert into t values (1)', ', (1)'),
    'values-row': _rep('insert into t values (1', ', 1', ')'),
    'insert-columns': _rep('insert into t (a', ', a', ') values (1)'),
    'update-list': _rep('update t set a = 1', ', a = 1'),
    'set-list': _rep('set a = 1', ', a = 1'),
    'kw-list': _rep('create model m predict p using a = 1', ', a = 1'),
    'kw-list-distinct': _rep('create model m predict p using a = 1', ', b.c = 1'),
    'table-columns': _rep('create table t (a int', ', a int', ')'),
    'cte-list': _rep('with a as (select 1)', ', a as (select 1)', ' select 1'),
    'drop-list': _rep('drop table a', ', a'),
    'predict-list': _rep('create model m predict a', ', a'),
    'statements': _rep('select 1', '; select 1'),
    'where-subselects': _rep('select 1 from t where a in (select 1)', ' and a in (select 1)'),
    'clauses-repeated': _rep('select 1 from t', ' where a'),
    'limit-repeated': _rep('select 1 from t', ' limit 1'),
    'show-modifiers': _rep('show', ' full', ' tables'),
    'job-schedule': _rep('create job j (select 1)', ' every 1 hour'),
    'raw-tokens': _rep('create job j (', 'select ', ')'),
    'raw-parens': _nest('create view v as (', 'select 1', ')'),
    'raw-pairs': _rep('create view v as (select 1', ' ()', ')'),
    'trigger-columns': _rep('create trigger g on t columns a', ', a', ' (select 1)'),
    'comments': _rep('select 1', ' /* c */'),
    'line-comments': _rep('select 1', ' -- c\n'),
    'is-not-gaps': _rep('select a is', ' /**/', ' not null'),
    'semicolons': _rep('select 1', ' ;'),
}


def _fit(build, fixed_ctx):
    n = (MAX_LEN - fixed_ctx - build.fixed) // build.unit
    if build.depth is not None:
        n = min(n, build.depth - 3)          # the contexts add up to three levels of their own
    return max(n, 1)


# one chain per kind of deep tree (left-deep / right-deep operations, casts, nested CASE / calls, flat name, flat lists)
CORE_CHAINS = ('sum', 'and', 'not', 'cast-op-short', 'case-else', 'func-nest', 'dots', 'in-flat')


def chain_cases(dialects, full=True):
    """(dialect, sql, tags). full: every chain in every context (largest fitting size and half of it); otherwise the
    largest fitting size only, the CORE_CHAINS in every context and every other chain in every fourth context (rotating,
    so that each context meets a quarter of the chains and each chain a quarter of the contexts)."""
    out = []
    for j, ctx in enumerate(CONTEXTS):
        for i, (name, build) in enumerate(CHAINS.items()):
            if not full and name not in CORE_CHAINS and (i + j) % 4:
                continue
            n = _fit(build, len(ctx) - 3)
            for m in ((n, n // 2) if full else (n,)):
                sql = ctx.replace('{X}', build(m))
                assert len(sql) <= MAX_LEN, (ctx, name, len(sql))
                for d in dialects:
                    out.append({'dialect': d, 'sql': sql, 'origin': 'size-chain', 'tags': ['chain:' + name, 'ctx:' + ctx]})
    for name, build in STATEMENT_CHAINS.items():
        n = _fit(build, 0)
        for m in (n, n // 2, n // 4):
            sql = build(m)
            assert len(sql) <= MAX_LEN
            for d in dialects:
                out.append({'dialect': d, 'sql': sql, 'origin': 'size-chain', 'tags': ['chain:' + name, 'ctx:statement']})
    return out


# ---- one long token -------------------------------------------------------------------------------------------------

DIGIT_LENGTHS = [4300, 4301, 9000]      # Python refuses int() / str() beyond 4300 digits
ONE_LENGTH = [4301]
TEXT_LENGTHS = [4500]

LEXEMES = {
    # name: (function of length, lengths)
    'digits': (lambda n: '1' * n, DIGIT_LENGTHS),
    'digits-zeros': (lambda n: '0' * n, DIGIT_LENGTHS),
    'digits-leading-zeros': (lambda n: '0' * (n - 1) + '7', DIGIT_LENGTHS),
    'digits-arabic-indic': (lambda n: '٣' * n, DIGIT_LENGTHS),
    'digits-mixed-scripts': (lambda n: ('1٣１' * n)[:n], DIGIT_LENGTHS),
    'float-long-int-part': (lambda n: '1' * n + '.5', ONE_LENGTH),
    'float-long-fraction': (lambda n: '1.' + '5' * n, ONE_LENGTH),
    'float-small': (lambda n: '0.' + '0' * n + '1', ONE_LENGTH),
    'exponent-name': (lambda n: '1e' + '9' * n, ONE_LENGTH),
    'name': (lambda n: 'a' * n, TEXT_LENGTHS),
    'name-digits-first': (lambda n: '1' * (n - 1) + 'a', ONE_LENGTH),
    'name-dollar': (lambda n: '$' * n, TEXT_LENGTHS),
    'back-quoted': (lambda n: '`' + 'a' * n + '`', TEXT_LENGTHS),
    'back-quoted-digits': (lambda n: '`' + '1' * n + '`', ONE_LENGTH),
    'back-quoted-doubled': (lambda n: '`' + '``' * (n // 2) + '`', TEXT_LENGTHS),
    'string': (lambda n: "'" + 'a' * n + "'", TEXT_LENGTHS),
    'string-digits': (lambda n: "'" + '1' * n + "'", ONE_LENGTH),
    'string-doubled-quotes': (lambda n: "'" + "''" * (n // 2) + "'", TEXT_LENGTHS),
    'string-backslashes': (lambda n: "'" + '\\\\' * (n // 2) + "'", TEXT_LENGTHS),
    'dstring': (lambda n: '"' + 'a' * n + '"', TEXT_LENGTHS),
    'dstring-digits': (lambda n: '"' + '1' * n + '"', ONE_LENGTH),
    'dstring-dots': (lambda n: '"' + '.' * n + '"', TEXT_LENGTHS),
    'variable': (lambda n: '@' + 'a' * n, TEXT_LENGTHS),
    'variable-dots': (lambda n: '@' + 'a.' * (n // 2) + 'a', TEXT_LENGTHS),
    'system-variable-quoted': (lambda n: "@@'a" + '1' * n + "'", TEXT_LENGTHS),
    'comment': (lambda n: '/*' + '*' * n + '*/ 1', TEXT_LENGTHS),
    'line-comment': (lambda n: '--' + '-' * n + '\n1', TEXT_LENGTHS),
    'blank-lines': (lambda n: '\n' * n + '1', [2000]),
}

LEXEME_CONTEXTS = [
    'select {L}',
    'select -{L}',
    'select - {L} from t',
    'select a.{L}',
    'select {L}.a',
    'select a.{L}.b from t',
    'select a as {L}',
    'select a {L}',
    'select {L} {L}',
    'select f({L})',
    'select {L}(1)',
    'select a + {L}',
    'select a::{L}',
    'select cast(a as {L})',
    'select cast(a as int({L}))',
    'select interval {L} day',
    'select interval {L}',
    'select a->{L}',
    'select * from {L}',
    'select * from t as {L}',
    'select * from t.{L}',
    'select * from t where a = {L}',
    'select * from t where a in ({L}, {L})',
    'select * from t where a between {L} and {L}',
    'select * from t limit {L}',
    'select * from t limit {L}, 1',
    'select * from t limit 1, {L}',
    'select * from t limit 1 offset {L}',
    'select * from t limit -{L}',
    'select * from t offset {L}',
    'select * from t order by {L}',
    'select * from t group by {L}',
    'insert into t values ({L})',
    'insert into t ({L}) values (1)',
    'update t set a = {L}',
    'update t set {L} = 1',
    'delete from t where {L}',
    'set a = {L}',
    'set {L} = 1',
    'set names {L}',
    'use {L}',
    'describe {L}',
    'drop table {L}',
    'show {L}',
    'show tables like {L}',
    'create table t (a int({L}))',
    'create table t (a varchar({L}) default {L})',
    'create table t ({L} int)',
    'create model m predict p using a = {L}',
    'create model m predict p using {L} = 1',
    'create model m predict p using a = {"k": {L}}',
    'create model m predict p using a = {{L}: 1}',
    'create model m predict p using a = [{L}]',
    'create model m predict p using a = f(x = {L})',
    'create model m from d (select 1) predict p order by a window {L} horizon {L}',
    'create model m from d (select {L}) predict p',
    'create job j (select 1) every {L} hours',
    'create job j (select 1) start {L} end {L}',
    'create database d with engine = {L}',
    'create database d with engine = "x", parameters = {"a": {L}}',
    'create knowledge_base k using model = {L}, storage = {L}',
    'create chatbot c using database = {L}',
    'create skill s using type = {L}',
    'retrain m.{L}',
    'select * from m.{L}',
    'drop model m.{L}',
    'finetune m.{L} from d (select 1)',
    'evaluate {L} from (select 1)',
    'select 1 from t using a = {L}',
    '{L}',
]


def lexeme_cases(dialects, full=True):
    """full: all lengths; otherwise the pure digit runs other than 'digits' only just beyond the limit"""
    out = []
    for name, (make, lengths) in LEXEMES.items():
        if not full and lengths is DIGIT_LENGTHS and name != 'digits':
            lengths = ONE_LENGTH
        for n in lengths:
            lex = make(n)
            for ctx in LEXEME_CONTEXTS:
                sql = ctx.replace('{L}', lex)
                for d in dialects:
                    out.append({'dialect': d, 'sql': sql, 'origin': 'size-lexeme',
                                'tags': ['lexeme:' + name, 'len:' + str(n), 'ctx:' + ctx]})
    return out


# ---- short tokens made of characters that neither the corpus nor Hypothesis' text() writes -------------------------------
# (digits of other scripts -- the lexers' \d takes every Unicode decimal digit --, number-like characters that are not
# decimal digits, lone surrogates, NUL, the blanks that str.isspace() knows and the lexers do not ignore)

ODD_LEXEMES = {
    'int-arabic-indic': '٣٤', 'int-fullwidth': '１２', 'int-tamil': '௧', 'int-math-bold': '\U0001d7cf\U0001d7d0',
    'int-mixed-scripts': '1٣１', 'float-arabic-indic': '٣.٤', 'float-mixed': '1.٣', 'float-math-bold': '\U0001d7cf.\U0001d7cf',
    'digits-then-letter': '٣a', 'letter-then-digits': 'a٣', 'exponent-arabic': '٣e٣',
    'superscript': '¹', 'fraction': '½', 'roman': 'Ⅷ', 'circled': '①', 'arabic-decimal-separator': '1٫5',
    'surrogate-bare': '\ud800', 'surrogate-pair-reversed': '\udc00\ud800', 'surrogate-in-string': "'\ud800'",
    'surrogate-in-dstring': '"\udfff"', 'surrogate-in-back-quotes': '`\ud800`', 'surrogate-in-name': 'a\ud800b',
    'surrogate-in-variable': "@'a\ud800'", 'surrogate-in-comment': '/* \ud800 */ 1', 'surrogate-after-digits': '1\ud800',
    'nul-bare': '\x00', 'nul-in-string': "'\x00'", 'nul-in-name': 'a\x00b', 'nul-in-back-quotes': '`\x00`',
    'blank-fs': 'a\x1cb', 'blank-vt': 'a\x0bb', 'blank-ff': 'a\x0cb', 'blank-nel': 'a\x85b', 'blank-nbsp': 'a\xa0b',
    'blank-line-separator': 'a b', 'blank-ideographic': 'a　b', 'bom': '﻿a', 'zero-width-space': 'a​b',
    'trailing-nbsp': 'a\xa0', 'trailing-line-separator': 'a ; ',
    'kelvin-name': 'Ka', 'long-s-name': 'naſe', 'dotless-i-name': 'ıd', 'dotted-I-name': 'İd', 'combining': 'á',
    'string-with-newlines': "'a\nb\n'", 'back-quoted-with-newline': '`a\nb`', 'comment-with-newlines': '/*\n\n*/ 1 1',
}


def odd_lexeme_cases(dialects):
    """(dialect, escaped sql, tags): the text is stored with str.encode('unicode_escape') -- lone surrogates can not be
    written to the UTF-8 files of the runner -- and carries 'enc': 'escape'"""
    out = []
    for name, lex in ODD_LEXEMES.items():
        for ctx in LEXEME_CONTEXTS:
            sql = ctx.replace('{L}', lex)
            for d in dialects:
                out.append({'dialect': d, 'sql': sql.encode('unicode_escape').decode('ascii'), 'enc': 'escape',
                            'origin': 'odd-lexeme', 'tags': ['lexeme:' + name, 'ctx:' + ctx]})
    return out
