"""G-c05-text: statement TEXTS (not token lists) for C05 -- everything between, inside and after the tokens.

The token-level generators of c05.py join source tokens with blanks; they never vary what the lexers and parse_sql drop
or glue: comment shapes, exotic blanks, the separators inside the two-word keywords, the stripped tail, tokens written
without a blank between them, the bodies of raw (embedded) queries, single characters.

Deterministic families (bounded-exhaustive, `static_cases()`):
  sep     base statement x position (lead / every gap / inside every two-word keyword / trail) x separator
  tail    base statement x every tail of <= 3 pieces over the tail alphabet
  raw     mindsdb commands that embed a raw query x body x what follows the closing parenthesis
Hypothesis families (`text_cases(bases, fam)`):
  glue    random tokens of a statement written with '' / blank / comment between them, letter case flipped
  char    one character of a statement deleted / replaced / inserted / doubled
Each case carries `tags` (feature tags; class counters `text:<family>` and `text:<family>:<detail>`).
"""
from hypothesis import strategies as st

DIALECTS = ('mindsdb', 'mysql', 'sqlite')

# what may be written where a blank is expected.  name -> text
SEPS = {
    'blank': ' ', 'tab': '\t', 'lf': '\n', 'cr': '\r', 'crlf': '\r\n', 'blanks': '  \n\t ', 'none': '',
    'block': '/**/', 'block-text': '/* c */', 'block-semi': '/* ; */', 'block-quote': "/* ' */",
    'block-paren': '/* ) ( */', 'block-star': '/***/', 'block-slash': '/*/', 'block-nested': '/* /* a */ */',
    'block-open': '/* c', 'block-close': '*/', 'block-junk-block': '/* a */ x y /* b */',
    'block-lines': '/* a\n-- b\n*/', 'block-dash': '/* -- */',
    'line': '-- c\n', 'line-empty': '--\n', 'line-eof': '-- c', 'line-glued': '--c\n', 'line-cr': '-- c\r',
    'line-semi': '-- ;\n', 'line-block': '-- /* \n', 'line-crlf': '-- c\r\n',
    'hash': '# c\n', 'hash-eof': '#', 'ff': '\x0c', 'vt': '\x0b', 'nbsp': '\xa0', 'ls': '\u2028', 'bom': '\ufeff',
    'nul': '\x00', 'em-space': '\u2003', 'backslash': '\\', 'backslash-lf': '\\\n', 'pipe': '|', 'underscore': '_',
    'semi': ';', 'semi-blank': ' ; ', 'semis': ';;', 'dot': '.', 'bang': '!', 'esc': '\x1b', 'del': '\x7f',
}

# small statements per dialect; `|` marks the places between tokens, `~` the separator inside a two-word keyword
COMMON_BASES = [
    'select|a|from|t|where|b|is~not|null|group~by|a|order~by|a|nulls~first|limit|1',
    'select|a|not~in|(|1|,|2|)|,|b|not~like|\'x\'|from|t',
    'select|row_number|(|)|over|(|partition~by|a|order~by|b|nulls~last|)|from|t',
    'select|1',
    'insert|into|t|(|a|)|values|(|1|)',
    'select|*|from|t1|join|t2|on|t1.a|=|t2.a',
]
BASES = {
    'mindsdb': COMMON_BASES + [
        'create|table|if|not~exists|t|(|id|int|primary~key|)',
        'create|knowledge~base|kb|using|model|=|m',
        'drop|knowledge~base|kb',
        'show|knowledge~bases',
        'describe|knowledge~base|kb',
        'create|model|m|from|int1|(|select|1|)|predict|a',
        'select|*|from|int1|(|select|1|)',
        'create|view|v|as|(|select|1|)',
        'use|db',
        'set|@v|=|1',
    ],
    'mysql': COMMON_BASES + ['use|db', 'set|@v|=|1', 'show|tables'],
    'sqlite': COMMON_BASES + ['use|db', 'show|tables'],
}

TAIL_ALPHABET = [';', ' ', '\n', '\t', '\r', '\x0c', '\xa0', '-- c', '-- c\n', '/* c */', '/* c', '#', 'x', ')',
                 'select 1', "'", '\\']

TAIL3 = [';', ' ', '\n', '-- c', '/* c */', 'x', '\u000c', ')', '#']

RAW_HEADS = [
    ('view', 'create view v as ('), ('view-noas', 'create view v ('), ('native', 'select * from int1 ('),
    ('model', 'create model m from int1 ('), ('retrain', 'retrain m from int1 ('), ('job', 'create job j ('),
    ('trigger', 'create trigger tr on db.t ('), ('evaluate', 'evaluate acc from ('), ('finetune', 'finetune m from int1 ('),
]
RAW_BODIES = [
    'select 1', 'select 1; select 2', ';', '', 'select 1 -- )', 'select 1 -- )\n', 'select /* ) */ 1', 'select /* ( */ 1',
    "select ')'", "select '('", 'select "("', 'select `)`', 'select (1', 'select 1)', 'select (1))', '(', ')', '()', '(()',
    'select 1 # c', 'select 1 \\', "select 'a", 'select 1 /* c', 'select 1 */', 'x y z ; drop table t', 'select @a', "select ''",
    'select 1\n;\nselect 2', 'select * from t where a is /* c */ not null', 'select knowledge|base', 'select 1 ) select ( 2',
]
RAW_TAILS = {'view': [''], 'view-noas': [''], 'native': ['', ' where a = 1'], 'model': [' predict a'],
             'retrain': ['', ' predict a'], 'job': ['', ' every hour'], 'trigger': [''], 'evaluate': [''], 'finetune': ['']}
RAW_AFTER = ['', ' x', ' ; select 1', ' select 1', ' )', ' ()', ' (', ' -- c', ' /* c', '; -- c']


def _pieces(base):
    """-> (tokens, inner) : tokens with '~' kept, to be rendered by render()."""
    return base.split('|')


def render(tokens, seps=None, inner=None, default=' ', inner_default=' '):
    """tokens: list with `~` inside two-word keywords; seps: {gap index: text} (gap k is before token k, len = after the
    last); inner: {(token index): text}."""
    seps = seps or {}
    inner = inner or {}
    out = [seps.get(0, '')]
    for k, tok in enumerate(tokens):
        if k:
            out.append(seps.get(k, default))
        out.append(tok.replace('~', inner.get(k, inner_default)))
    out.append(seps.get(len(tokens), ''))
    return ''.join(out)


def static_cases():
    """Deterministic list of cases {dialect, sql, origin, tags}."""
    out = []
    for d in DIALECTS:
        for b, base in enumerate(BASES[d]):
            toks = _pieces(base)
            n = len(toks)
            # ---- sep: one separator at one place
            for name, sep in SEPS.items():
                for k in range(n + 1):
                    pos = 'lead' if k == 0 else 'trail' if k == n else 'gap'
                    if pos == 'gap' and b >= 3 and k not in (1, n - 1):
                        continue        # the long bases cover every gap; the others their first and last one
                    sql = render(toks, seps={k: sep})
                    out.append({'dialect': d, 'sql': sql, 'origin': 'text:sep',
                                'tags': ['text:sep', 'text:sep:' + pos, 'text:sepkind:' + name]})
                for k, tok in enumerate(toks):
                    if '~' in tok:
                        sql = render(toks, inner={k: sep})
                        out.append({'dialect': d, 'sql': sql, 'origin': 'text:sep',
                                    'tags': ['text:sep', 'text:sep:inside', 'text:sepkind:' + name,
                                             'text:two-word:' + tok.replace('~', '_')]})
            # ---- tail: what parse_sql strips and what it does not
            if b in (0, 3) or 'knowledge' in base or base.startswith('create|view'):
                sql0 = render(toks)
                for a in TAIL_ALPHABET:
                    out.append({'dialect': d, 'sql': sql0 + a, 'origin': 'text:tail', 'tags': ['text:tail', 'text:tail:1']})
                    for c in TAIL_ALPHABET:
                        out.append({'dialect': d, 'sql': sql0 + a + c, 'origin': 'text:tail',
                                    'tags': ['text:tail', 'text:tail:2']})
                        if b == 3 and a in TAIL3 and c in TAIL3:
                            for e in TAIL3:
                                out.append({'dialect': d, 'sql': sql0 + a + c + e, 'origin': 'text:tail',
                                            'tags': ['text:tail', 'text:tail:3']})
    # ---- raw: embedded query bodies (the grammar takes any balanced token sequence there)
    for kind, head in RAW_HEADS:
        for body in RAW_BODIES:
            for tail in RAW_TAILS[kind]:
                for after in RAW_AFTER:
                    sql = head + body + ')' + tail + after
                    out.append({'dialect': 'mindsdb', 'sql': sql, 'origin': 'text:raw',
                                'tags': ['text:raw', 'text:raw:' + kind] + (['text:raw:after'] if after else [])})
    return out


GLUE = ['', '', '', ' ', ' ', '\n', '/**/', '/* c */', '-- c\n', '\t', '\r\n']
CHARS = list(" \t\n\r;,.()'\"`@#$%^&*-+=/\\|<>!?~:[]{}_") + ['0', '9', 'a', 'Z', 'e', '\x0c', '\xa0', '\x00', '\u2028', '\u00e9',
                                                          '--', '/*', '*/', '||', '->']


def flip_case(draw, tok):
    if tok[:1] in '\'"`@':
        return tok
    how = draw(st.integers(0, 3))
    if how == 0:
        return tok.upper()
    if how == 1:
        return tok.lower()
    if how == 2:
        return ''.join(c.upper() if i % 2 else c.lower() for i, c in enumerate(tok))
    return tok


@st.composite
def text_cases(draw, bases, fam):
    """bases: {dialect: [list of source tokens]} (statements the dialect accepts); fam: 'glue' | 'char'."""
    d = draw(st.sampled_from(DIALECTS))
    toks = list(draw(st.sampled_from(bases[d])))
    if fam == 'glue':
        toks = [flip_case(draw, t) for t in toks]
        out = []
        for k, t in enumerate(toks):
            if k:
                out.append(draw(st.sampled_from(GLUE)))
            out.append(t)
        sql = ''.join(out)
        tags = ['text:glue']
    else:
        sql = ' '.join(toks)
        kind = draw(st.sampled_from(['delete', 'replace', 'insert', 'double']))
        if sql:
            i = draw(st.integers(0, len(sql) - 1))
            c = draw(st.sampled_from(CHARS))
            if kind == 'delete':
                sql = sql[:i] + sql[i + 1:]
            elif kind == 'replace':
                sql = sql[:i] + c + sql[i + 1:]
            elif kind == 'insert':
                sql = sql[:i] + c + sql[i:]
            else:
                sql = sql[:i] + sql[i] + sql[i:]
        tags = ['text:char', 'text:char:' + kind]
    return {'dialect': d, 'sql': sql, 'origin': 'text:' + fam, 'tags': tags}
