"""C09 helper: join chains whose models carry *their own* USING options (table-prefixed `alias.partition_size=N`).

`USING partition_size=N` without a prefix goes to every model of the chain; `USING p2.partition_size=100,
p3.partition_size=50` gives every model a partition (map-reduce container) size of its own, or none.  Which steps end
up inside which container, and whether a step outside a container reads a sub-step of it, depends on
  * the join shape: which models follow each other directly (they share an open partition) and which are separated by a
    table / sub-select (a fetch closes the partition);
  * the assignment of sizes to the models: none / a size / another size, per model, plus an optional un-prefixed size;
  * the order of the options (a later option for the same model wins).
Two generators:
  * `fixed_part_cases(tier)` -- bounded-exhaustive: every shape over {T, M, S} up to a length x every assignment;
  * `part_queries(cat)` -- Hypothesis: the text templates of vf.gens.catalogs.ModelQueryGen (WHERE / targets / ON / wraps,
    drawn catalogs) over model-heavy shapes, with the USING clause replaced by per-model options.
Everything is text + JSON (cases replay).
"""
import itertools
from hypothesis import strategies as st
from vf.gens import catalogs

SIZES = (None, 100, 50)
_T = ['int1.t1', 'int2.t3', 'int1.t2', 'int2.t4']
_M = ['proj.m1', 'proj.m2']
_S = ['(SELECT * FROM int1.t1 WHERE b > 1)', '(SELECT * FROM int2.t3)']
_N = ['int1 (select * from t1)', 'int2 (select * from t3)']


def shapes(max_len, kinds='TMS', min_len=2):
    out = []
    for n in range(min_len, max_len + 1):
        for p in itertools.product(kinds, repeat=n):
            if 'M' in p:
                out.append(' '.join(p))
    return out


def part_statement(shape, sizes, glob=None, glob_first=False, variant='bare', wrap='plain', prefix='alias'):
    """Canonical statement of a shape; `sizes` = one entry of SIZES per model of the shape (in order); `glob` = the
    un-prefixed size or None; prefix = 'alias' (models aliased, options prefixed by the alias) | 'name' (models not
    aliased, options prefixed by the model's name, with the namespace for every second model)."""
    pools = {'T': _T, 'M': _M, 'S': _S, 'N': _N}
    pref = {'T': 'a', 'M': 'p', 'S': 'q', 'N': 'n'}
    seen = {}
    items = []
    for i, k in enumerate(shape.split(), 1):
        j = seen.get(k, 0)
        seen[k] = j + 1
        src = pools[k][j % len(pools[k])]
        if k == 'M' and prefix == 'name':
            # the i-th model under its own name (a name used twice is ambiguous: the planner has to refuse it)
            items.append((k, src, None, src.split('.')[-1] if j % 2 == 0 else src))
        else:
            items.append((k, src, f'{pref[k]}{i}', f'{pref[k]}{i}'))
    on = variant == 'where'

    def ref(it):
        return it[2] or it[1].split('.')[-1]

    def frm(it):
        return f'{it[1]} AS {it[2]}' if it[2] else it[1]

    text = frm(items[0])
    for it in items[1:]:
        text += f' JOIN {frm(it)}' + (f' ON {ref(items[0])}.a = {ref(it)}.a' if on else '')
    if not on:
        sel = f'SELECT * FROM {text}'
    else:
        conds = []
        data = [it for it in items if it[0] in 'TSN']
        if data:
            conds.append(f'{ref(data[0])}.a = 1')
        for it in items:
            if it[0] == 'M':
                conds.append(f'{ref(it)}.x = 2')
        sel = f'SELECT {ref(items[0])}.a, {ref(items[-1])}.a AS c1 FROM {text}'
        if conds:
            sel += ' WHERE ' + ' AND '.join(conds)
        sel += ' LIMIT 5'
    opts = []
    models = [it for it in items if it[0] == 'M']
    assert len(models) == len(sizes), (shape, sizes)
    for it, s in zip(models, sizes):
        if s is not None:
            opts.append(f'{it[3]}.partition_size={s}')
    if glob is not None:
        opts.insert(0 if glob_first else len(opts), f'partition_size={glob}')
    if opts:
        sel += ' USING ' + ', '.join(opts)
    view = {'tables': {t: [f'{q}.{t}'] for t, q in catalogs.PLACES.items()}}
    return catalogs.dml_wrap_text(catalogs._Fixed(view), sel, wrap)


def size_tags(sizes, glob):
    given = [s for s in sizes if s is not None]
    tags = []
    if given:
        tags.append('using:pp:scoped')
    if len(set(given)) > 1:
        tags.append('using:pp:sizes-differ')
    if given and len(given) < len(sizes):
        tags.append('using:pp:some-models-without')
    if glob is not None and given:
        tags.append('using:pp:global+scoped')
    if given or glob is not None:
        tags.append('using:partition_size')
    return tags


def adjacent_models_differ(seq):
    """seq: per FROM item '-' (not a model) or the model's effective size (None = no partition).  True when two models
    that follow each other directly get different effective sizes (the class of seeded change C09-g)."""
    return any(a != '-' and b != '-' and a != b for a, b in zip(seq, seq[1:]))


def effective(shape, sizes, glob=None):
    eff = iter([s if s is not None else glob for s in sizes])
    return [next(eff) if k == 'M' else '-' for k in shape.split()]


def fixed_part_cases(tier):
    """Bounded-exhaustive: shapes over {T, M, S} with >= 1 model x per-model size in {none, 100, 50} x un-prefixed size
    {none, 10 written last, 10 written first}.
    quick: length <= 3 x 2 variants x {plain, insert, where-in} on the first fixed catalog (plain on the second), by name
           once per shape; length 4: plain / bare / no un-prefixed size;
    thorough: length <= 4 in full, length 5 plain / bare / no un-prefixed size, and kinds {T, M, S, N} up to length 3."""
    full_len = 3 if tier == 'quick' else 4

    def emit(shape, sizes, glob, gfirst, variant, wrap, cname, prefix='alias'):
        tags = size_tags(sizes, glob) + (['using:pp:adjacent-models-differ'] if adjacent_models_differ(effective(shape, sizes, glob))
                                         else []) + ['using:pp:prefix:' + prefix]
        return {'src': 'fixed-part', 'sql': part_statement(shape, sizes, glob, gfirst, variant, wrap, prefix),
                'catalog': catalogs.FIXED_CATALOGS[cname],
                'meta': {'shape': shape, 'wrap': wrap, 'tags': tags, 'cat_tags': ['fixed:' + cname]}}

    def assignments(k, globs=((None, False), (10, False), (10, True))):
        for sizes in itertools.product(SIZES, repeat=k):
            for glob, gfirst in globs:
                if glob is None and all(s is None for s in sizes):
                    continue            # no option at all: the plain bounded-exhaustive part has it
                if gfirst and all(s is None for s in sizes):
                    continue            # a single option has one order
                yield sizes, glob, gfirst

    for shape in shapes(full_len):
        k = shape.split().count('M')
        for sizes, glob, gfirst in assignments(k):
            for variant in ('bare', 'where'):
                for wrap in ('plain', 'insert', 'where-in'):
                    yield emit(shape, sizes, glob, gfirst, variant, wrap, 'names-list')
                yield emit(shape, sizes, glob, gfirst, variant, 'plain', 'dicts-legacy')
            if glob is None:
                yield emit(shape, sizes, glob, gfirst, 'bare', 'plain', 'names-list', prefix='name')
    for shape in shapes(full_len + 1, min_len=full_len + 1):
        k = shape.split().count('M')
        for sizes, glob, gfirst in assignments(k, globs=((None, False),)):
            yield emit(shape, sizes, glob, gfirst, 'bare', 'plain', 'names-list')
    if tier != 'quick':
        for shape in shapes(3, kinds='TMSN'):
            if 'N' not in shape:
                continue
            k = shape.split().count('M')
            for sizes, glob, gfirst in assignments(k):
                yield emit(shape, sizes, glob, gfirst, 'bare', 'plain', 'names-list')


# ------------------------------------------------------------------------------------------------- random part

PART_SHAPES = ['T M M'] * 6 + ['T M M M'] * 3 + ['T M M T'] * 2 + ['T M T M'] * 3 + ['S M M'] * 2 + ['T T M M'] * 2 + \
              ['T M S M', 'N M M', 'T M M S', 'D M M', 'T M', 'T M', 'S M', 'T M T', 'M T', 'M M', 'T M X', 'T X',
               'T M M M M', 'T M T M M'] + ['?'] * 3


class PartGen(catalogs.ModelQueryGen):
    """ModelQueryGen with a USING clause that gives the models options of their own."""

    def using(self, items):
        models = [it for it in items if it[3] in 'MX']
        opts = []
        given = []
        for it in models:
            if self.chance(2, 3):
                s = self.pick([1, 10, 10, 1000])
                given.append(s)
                # prefix: the alias (or the name the model goes by in the query); sometimes the full reference of a
                # model without alias
                pre = it[1]
                if 'model:no-alias' in self.tags and self.chance(1, 2):
                    pre = it[0].split(' ')[0]
                opts.append(f'{pre}.partition_size={s}')
            else:
                given.append(None)
        glob = None
        if self.chance(1, 4):
            glob = self.pick([1, 10, 1000])
            opts.append(f'partition_size={glob}')
        for _ in range(self.draw(st.integers(0, 1))):
            k = self.pick(['plain', 'scoped', 'str'])
            if k == 'plain':
                opts.append(f'{self.pick(["a", "param3", "engine"])}={self.const()}')
            elif k == 'str':
                opts.append(f"{self.pick(['mode', 'param3'])}='{self.pick(['x', 'b'])}'")
            elif models:
                opts.append(f"{self.pick(models)[1]}.param{self.pick([1, 2])}='{self.pick(['a', 'b'])}'")
        if not opts:
            return ''
        if self.chance(1, 2):
            order = self.draw(st.permutations(list(range(len(opts)))))
            opts = [opts[i] for i in order]
        for t in size_tags(given, glob):
            self.tags.add(t)
        by_alias = {it[1]: g for it, g in zip(models, given)}
        seq = [(by_alias[it[1]] if by_alias[it[1]] is not None else glob) if it[3] == 'M' else '-' for it in items]
        if adjacent_models_differ(seq):
            self.tags.add('using:pp:adjacent-models-differ')
        self.tags.add('using')
        return ' USING ' + ', '.join(opts)


@st.composite
def part_queries(draw, cat):
    g = PartGen(draw, cat)
    sel, shape = g.select(catalogs._pick(draw, PART_SHAPES))
    wrap = catalogs._pick(draw, catalogs.WRAPS)
    sql = catalogs.dml_wrap_text(g, sel, wrap)
    return {'sql': sql, 'meta': {'tags': sorted(g.tags), 'shape': shape, 'wrap': wrap}}
