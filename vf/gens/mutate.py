"""G-mutate: token-level edits of a lexed statement; every choice is a Hypothesis draw."""
import re
from hypothesis import strategies as st

WS_RE = re.compile(r'(?:[ \t\r\n]+|--[^\n]*|/\*[\s\S]*?\*/)*')


def lex_spans(lexer_cls, text):
    """[(type, source_text, index, end)] or None when the lexer rejects the text."""
    try:
        return [(t.type, text[t.index:t.end], t.index, t.end) for t in lexer_cls().tokenize(text)]
    except Exception:
        return None


def source_tokens(lexer_cls, text):
    sp = lex_spans(lexer_cls, text)
    return None if sp is None else [s[1] for s in sp]


GARBAGE = ['x y', ')', '(', 'select', 'from', ';', 'x y ;', '1', ',', "'s'", 'drop', 'and', '= =', '. .',
           '#', '# zz', '!', '\\', '\u00a7', '^', '~', '?', '$', '&', '#a b']


@st.composite
def mutation(draw, tokens, lexemes, other_statements=()):
    """Return (kind, new token list).  tokens: list of source strings; lexemes: pool for replace/insert."""
    n = len(tokens)
    kinds = ['delete', 'dup', 'replace', 'insert', 'swap', 'truncate', 'prefix', 'suffix', 'infix']
    if other_statements:
        kinds += ['concat', 'concat_semi']
    kind = draw(st.sampled_from(kinds))
    t = list(tokens)
    if n == 0:
        return 'insert', [draw(st.sampled_from(lexemes))]
    i = draw(st.integers(0, n - 1))
    if kind == 'delete':
        del t[i]
    elif kind == 'dup':
        t.insert(i, t[i])
    elif kind == 'replace':
        t[i] = draw(st.sampled_from(lexemes))
    elif kind == 'insert':
        t.insert(draw(st.integers(0, n)), draw(st.sampled_from(lexemes)))
    elif kind == 'swap':
        if n >= 2:
            j = min(i, n - 2)
            t[j], t[j + 1] = t[j + 1], t[j]
    elif kind == 'truncate':
        t = t[:i]
    elif kind == 'prefix':
        t = draw(st.sampled_from(GARBAGE)).split() + t
    elif kind == 'suffix':
        t = t + draw(st.sampled_from(GARBAGE)).split()
    elif kind == 'infix':
        g = draw(st.sampled_from(GARBAGE)).split()
        t = t[:i] + g + t[i:]
    elif kind == 'concat':
        o = list(draw(st.sampled_from(other_statements)))
        t = (t + o) if draw(st.booleans()) else (o + t)
    elif kind == 'concat_semi':
        o = list(draw(st.sampled_from(other_statements)))
        t = (t + [';'] + o) if draw(st.booleans()) else (o + [';'] + t)
    return kind, t


@st.composite
def layout(draw, tokens):
    """Join tokens with blanks / newlines / comments between them."""
    seps = [' ', ' ', ' ', '  ', '\n', '\n  ', ' \n', '\n\n', ' -- c\n', ' /* c */ ', '\t']
    out = [draw(st.sampled_from(['', '', ' ', '\n', '  ', '-- lead\n', '/* lead */']))]
    for k, tok in enumerate(tokens):
        if k:
            out.append(draw(st.sampled_from(seps)))
        out.append(tok)
    return ''.join(out)
