"""Shape families of C18 added by the follow-up on the seeded changes C18-g / C18-h.

1. odd name parts: a quoted name part whose text is special somewhere in the library (`*`, `.`, a back-quote, a keyword, digits,
   blanks ...) at every position (only / first / middle / last) of a 1..3-part name, at every place of a statement where a name
   is read.  Identifier.__copy__ / __deepcopy__ are the only code that hands a complete list of parts to the constructor, so
   whatever the constructor does to a list (and does not do to the one-part names the parsers build) shows on the copy only.
2. twin plans: ONE statement planned under several catalogs that differ only in what a model is (plain / time series without
   / with group-by columns, model of another project); the steps of the plans are compared across the plans, so steps of
   different classes (also a class and its subclass) whose common attributes agree meet under ==.
"""

# ---- 1. odd name parts ------------------------------------------------------------------------------------------------
# text of the part (inside the quotes)
ODD_PARTS = ['*', '**', 'a*', '*a', '.', 'a.b', '.*', 't.*', '1', '007', '1a', 'select', 'from', 'x y', ' ', '`', 'a`b', "'", '"', '%',
             '?', '@v', 'latest', 'null', 'true', '-', 'a-b', 'count', 'A', '(', 'a,b', '*/', '--', '#']
# positions of the odd part {p} inside a name
NAME_FORMS = ['{p}', 't.{p}', '{p}.a', 'a.b.{p}', 'a.{p}.c', '{p}.{p}', '{p}.b.c', 't.{p}.*', 'a.b.c.{p}']
# places of a statement where a (multi-part) name {n} is read
NAME_PLACES = ['select {n} from t', 'select a from t where {n} > 1', 'select count({n}) from t group by {n}', 'select a from t order by {n} desc',
               'select {n} as c, -{n}, ({n}), {n} + 1 from t', 'select * from {n}', 'select * from t join {n} on 1 = 1',
               'select a from t where {n} in (select {n} from u)', 'select case when {n} then {n} else 1 end from t',
               'select cast({n} as int), f({n}, 1), {n} is null, {n} between 1 and 2 from t', 'insert into {n} (a) values (1)',
               'update t set a = {n} where {n} = 1', 'delete from t where {n} like \'x\'', 'update {n} set a = 1', 'drop table {n}',
               'create table {n} (select {n} from t)', 'select sum(a) over (partition by {n} order by {n}) from t',
               'select * from t1 join t2 on t1.a = {n}', 'select a from t having {n} = 1 limit 1', 'with c as (select {n} from t) select * from c',
               'select {n} from t union select {n} from u', 'describe {n}', 'select {n}.f(a) from t',
               'create model {n} from int1 (select 1) predict a', 'select * from {n} as x using a = 1']
# names that are spelled with double quotes after a dot (mindsdb dialect only)
DQ_FORMS = ['t."{p}"', 'a.b."{p}"', 'a."{p}".c', '"{p}".a', '"{p}"']


def quote_part(p):
    return '`' + p.replace('`', '``') + '`'


def odd_part_texts(tier='quick'):
    """[(dialect, sql, form, part)] bounded-exhaustive: parts x forms x places (quick: every (part, form) pair at a rotating third of
    the places and every (part, place) / (form, place) pair at least once; thorough: the whole product), all three dialects
    rotating (thorough: all), and the double-quoted spellings of the mindsdb dialect."""
    dialects = ('mindsdb', 'mysql', 'sqlite')
    out = []
    n = 0
    for i, p in enumerate(ODD_PARTS):
        for j, f in enumerate(NAME_FORMS):
            name = f.replace('{p}', quote_part(p))
            for k, place in enumerate(NAME_PLACES):
                n += 1
                if tier != 'thorough' and (i + j + k) % 6:
                    continue
                for di, d in enumerate(dialects):
                    if tier == 'thorough' or (i + j + k) // 6 % 3 == di:
                        out.append((d, place.replace('{n}', name), f, p))
        for j, f in enumerate(DQ_FORMS):
            if '"' in p or '\\' in p:
                continue
            name = f.replace('{p}', p)
            for k, place in enumerate(NAME_PLACES):
                if tier == 'thorough' or (i + j + k) % 5 == 0:
                    out.append(('mindsdb', place.replace('{n}', name), f, p))
    return out


# ---- 2. twin plans ----------------------------------------------------------------------------------------------------
MODELS = ('pred', 'pred1', 'pred2', 'tp3', 'ts', 'predictor', 'embedding_model')


def _plain(name, project='mindsdb'):
    return {'name': name, 'integration_name': project}


def _series(name, group, project='mindsdb', order='t', window=3, horizon=None):
    m = {'name': name, 'integration_name': project, 'timeseries': True, 'order_by_column': order,
         'group_by_columns': list(group), 'window': window}
    if horizon is not None:
        m['horizon'] = horizon
    return m


# what every model of the catalog is; the statement and everything else of the catalog stay the same
WORLDS = ('plain', 'series', 'series-grouped', 'series-horizon', 'series-order2')


def world_predictors(world):
    """Fresh predictor metadata of a world (the planner may write into these dicts)."""
    out = []
    for name in MODELS:
        if world == 'plain':
            out.append(_plain(name))
        elif world == 'series':
            out.append(_series(name, []))
        elif world == 'series-grouped':
            out.append(_series(name, ['g']))
        elif world == 'series-horizon':
            out.append(_series(name, [], horizon=2, window=5))
        elif world == 'series-order2':
            out.append(_series(name, [], order='t2'))
        else:
            raise ValueError(world)
    out.append(_plain('model', 'proj'))
    out.append(_plain('pred', 'proj'))
    return out


# statements that join data with a model / read a model (mindsdb dialect); {m} = model, {j} = join word, {w} = condition
TWIN_JOINS = ('join', 'left join')
TWIN_CONDS = ['', ' where ta.t > latest', " where ta.t > '2020-01-01'", " where ta.t between '2020-01-01' and '2020-02-01'",
              ' where ta.a = 1', " where ta.t > latest and ta.g = 'x'", ' where tb.a > 1', ' where ta.t = latest', ' limit 5',
              " where ta.t > '2020-01-01' using k = 1", ' order by ta.t', ' where ta.t2 > latest']
TWIN_TEMPLATES = ['select tb.x from int1.tbl as ta {j} mindsdb.{m} as tb{w}', 'select * from int1.tbl as ta {j} mindsdb.{m} as tb{w}',
                  'select ta.a, tb.x as y from int1.s.tbl as ta {j} {m} as tb{w}',
                  'select * from (select * from int1.tbl) as ta {j} mindsdb.{m} as tb{w}']
TWIN_OTHERS = ['select * from mindsdb.{m} where a = 1', 'select * from mindsdb.{m} where a = 1 and b = 2', "select x from {m} where t > latest and g = 'x'",
               'select * from int1.tbl as ta join int2.u as tu on ta.a = tu.a join mindsdb.{m} as tb', 'select * from mindsdb.{m}',
               'insert into int2.out (select tb.x from int1.tbl as ta join mindsdb.{m} as tb)',
               'create table int2.out (select tb.x from int1.tbl as ta join mindsdb.{m} as tb where ta.t > latest)',
               'select * from int1.tbl as ta join mindsdb.{m} as tb union select * from int1.tbl as ta join mindsdb.{m} as tb where ta.t > latest',
               'select * from int1.tbl as ta join mindsdb.{m}.v2 as tb where ta.t > latest', 'select * from int1.tbl where a in (select x from mindsdb.{m} where a = 1)',
               'select * from int1.tbl as ta join proj.model as tb', 'select tb.x from files.f as ta join mindsdb.{m} as tb where ta.t > latest',
               'select * from int1 (select * from tbl) as ta join mindsdb.{m} as tb']


def twin_texts(tier='quick'):
    out = []
    models = ('pred', 'tp3') if tier != 'thorough' else ('pred', 'tp3', 'ts')
    for t in TWIN_TEMPLATES:
        for j in TWIN_JOINS:
            for w in TWIN_CONDS:
                for m in models:
                    out.append(t.replace('{j}', j).replace('{w}', w).replace('{m}', m))
    for t in TWIN_OTHERS:
        for m in models:
            out.append(t.replace('{m}', m))
    seen, res = set(), []
    for s in out:
        if s not in seen:
            seen.add(s)
            res.append(s)
    return res
