"""C08 shape families of the follow-up wave (used by vf/props/c08.py).

order_item_shapes   what an ORDER BY item can be (select-list position, qualified column, target alias, expression /
                    function over a source column, expression over an alias; ASC / DESC / NULLS FIRST|LAST) x where the
                    statement reads from (one table of an api-type integration, the same with an IN sub-select over the
                    other integration, a join over two integrations, a joined sub-select) x targets (plain columns in
                    table order or not, renamed, computed) x LIMIT [OFFSET].  Every ordering key is also an output
                    column (or a strictly monotone image of one), so the order and the rows kept by LIMIT are observable.
cte_alias_shapes    a common table expression used in a join under an alias / without one / twice under two aliases.
"""
from hypothesis import strategies as st

from vf.gens import model

INT1_TABLES = [('int1', 't1'), ('int1', 't2')]
INT2_TABLES = [('int2', 't3'), ('int2', 't4'), ('int2', 't1')]
ORDER_FORMS = ['position', 'position', 'position', 'column', 'alias', 'neg', 'plus0', 'func', 'alias-expr']


def int_cols(t):
    return [c for c, ty in model.SCHEMA[t[1]] if ty == 'int']


@st.composite
def order_item_shapes(draw):
    src = draw(st.sampled_from(['api', 'api', 'api-in', 'api-in', 'join', 'join', 'join-api', 'subselect']))
    tags = {'shape:order-item', 'order-src:' + src, 'order'}
    tabs = []                       # [(alias, (place, table))]
    if src in ('api', 'api-in'):
        t = draw(st.sampled_from(INT2_TABLES))
        tabs = [('x1', t)]
        frm = f'{t[0]}.{t[1]} AS x1'
        catalog = 'api-int2'
    elif src in ('join', 'join-api'):
        a, b = draw(st.sampled_from(INT1_TABLES)), draw(st.sampled_from(INT2_TABLES))
        if draw(st.integers(0, 2)) == 0:
            a, b = b, a
        jk = draw(st.sampled_from(['LEFT JOIN', 'LEFT JOIN', 'LEFT OUTER JOIN', 'JOIN']))
        tags.add('join:' + jk)
        tabs = [('x1', a), ('x2', b)]
        frm = f'{a[0]}.{a[1]} AS x1 {jk} {b[0]}.{b[1]} AS x2 ON (x1.a = x2.a)'
        catalog = 'api-int2' if src == 'join-api' else None
    else:
        a, b = draw(st.sampled_from(INT1_TABLES)), draw(st.sampled_from(INT2_TABLES))
        ca, cb = int_cols(a)[1], int_cols(b)[1]
        jk = draw(st.sampled_from(['LEFT JOIN', 'JOIN']))
        # the sub-select returns the columns a, b of a pseudo table t1 (two int columns)
        frm = (f'(SELECT y1.{ca} AS a, y2.{cb} AS b FROM {a[0]}.{a[1]} AS y1 {jk} {b[0]}.{b[1]} AS y2 ON (y1.a = y2.a)) AS x1')
        tabs = [('x1', ('', 't1'))]
        tags |= {'sub:from', 'join:' + jk}
        catalog = None
    pool = [(al, c) for al, t in tabs for c in int_cols(t)]
    if len(tabs) == 2 and draw(st.integers(0, 2)) > 0:
        pool = [p for p in pool if p[0] == 'x1'] + [('x2', int_cols(tabs[1][1])[1])]     # the first table's columns mostly
    n = draw(st.integers(2, min(3, len(pool))))
    picked = draw(st.permutations(pool))[:n]
    plain = draw(st.integers(0, 3)) == 0
    targets = []                    # (text, alias or None)
    for k, (al, c) in enumerate(picked):
        form = 'plain' if plain else draw(st.sampled_from(['plain', 'renamed', 'renamed', 'computed', 'computed-unnamed']))
        if form == 'plain':
            targets.append((f'{al}.{c}', None))
        elif form == 'renamed':
            targets.append((f'{al}.{c}', f'c{k}'))
        elif form == 'computed':
            targets.append((f'({al}.{c} + 1)', f'c{k}'))
        else:
            targets.append((f'({al}.{c} + 1)', None))
    tags.add('targets:plain' if all(a_ is None and not t_.startswith('(') for t_, a_ in targets) else 'targets:not-plain')
    items, used = [], []
    for _ in range(draw(st.sampled_from([1, 1, 2]))):
        k = draw(st.integers(0, n - 1))
        if k in used:
            continue
        used.append(k)
        al, c = picked[k]
        form = draw(st.sampled_from(ORDER_FORMS))
        if form in ('alias', 'alias-expr') and targets[k][1] is None:
            form = 'position'
        txt = {'position': str(k + 1), 'column': f'{al}.{c}', 'alias': targets[k][1], 'neg': f'(- {al}.{c})',
               'plus0': f'({al}.{c} + 0)', 'func': f'abs({al}.{c})', 'alias-expr': f'({targets[k][1]} + 0)'}[form]
        tags.add('order-item:' + form)
        dr = draw(st.sampled_from(['', '', ' DESC', ' ASC']))
        if draw(st.integers(0, 5)) == 0:
            dr += draw(st.sampled_from([' NULLS FIRST', ' NULLS LAST']))
            tags.add('order:nulls')
        items.append(txt + dr)
    conj = []
    if draw(st.integers(0, 3)) == 0:
        al, c = draw(st.sampled_from(pool if src != 'join' else [p for p in pool if p[0] == 'x1']))
        conj.append(f'({al}.{c} {draw(st.sampled_from([">", "<=", "!="]))} {draw(st.integers(0, 2))})')
    if src == 'api-in':
        u = draw(st.sampled_from(INT1_TABLES))
        conj.append(f'(x1.a {draw(st.sampled_from(["", "", "NOT "]))}IN (SELECT s2.{draw(st.sampled_from(int_cols(u)))} '
                    f'FROM {u[0]}.{u[1]} AS s2))')
        tags.add('sub:in')
    where = (' WHERE ' + ' AND '.join(conj)) if conj else ''
    if conj:
        tags.add('where')
    tl = ', '.join(t_ if a_ is None else f'{t_} AS {a_}' for t_, a_ in targets)
    base = f'SELECT {tl} FROM {frm}{where} ORDER BY {", ".join(items)}'
    meta = {'order_cols': used, 'total_order': len(used) == n, 'limit': False}
    sql = base
    if draw(st.integers(0, 4)) > 0:
        sql = base + f' LIMIT {draw(st.integers(1, 3))}'
        tags.add('limit')
        meta['limit'] = True
        meta['sql_unlimited'] = base
        if not meta['total_order']:
            tags.add('limit:partial-order')
        if draw(st.integers(0, 5)) == 0:
            sql += f' OFFSET {draw(st.integers(0, 2))}'
            tags.add('offset')
    places = sorted({t[0] for _, t in tabs if t[0]} | ({'int1'} if src == 'api-in' else set())
                    | ({'int1', 'int2'} if src == 'subselect' else set()))
    meta.update({'tags': sorted(tags), 'places': places, 'tables': sorted({f'{t[0]}.{t[1]}' for _, t in tabs if t[0]}),
                 'types': ['int'] * n})
    return {'sql': sql, 'meta': meta}, catalog


@st.composite
def cte_alias_shapes(draw):
    """`WITH w AS (select over one integration) SELECT .. FROM w [AS x] JOIN <table of the other integration> ..`: how the
    result of the CTE is addressed by the join and by the query over the joined result (alias, no alias, the CTE
    twice under two aliases, the CTE on the right of the join); a WHERE conjunct on the CTE's columns is optional."""
    a = draw(st.sampled_from(INT1_TABLES + INT2_TABLES))
    b = draw(st.sampled_from([x for x in INT1_TABLES + INT2_TABLES if x[0] != a[0]]))
    name = draw(st.sampled_from(['w', 'w', 'cte0']))
    ca, cb = int_cols(a)[1], int_cols(b)[1]
    kind = draw(st.sampled_from(['alias-left', 'alias-left', 'alias-right', 'self', 'no-alias']))
    jk = draw(st.sampled_from(['JOIN', 'JOIN', 'LEFT JOIN', 'INNER JOIN']))
    tags = {'shape:cte-alias', 'cte', 'cte:used', 'cte-ref:' + kind, 'join:' + jk}
    body = f'SELECT y.a AS a, y.{ca} AS v FROM {a[0]}.{a[1]} AS y'
    if draw(st.integers(0, 3)) == 0:
        body += f' WHERE (y.a {draw(st.sampled_from([">", "<=", "!="]))} {draw(st.integers(0, 2))})'
    defname = refname = name
    if draw(st.integers(0, 2)) == 0:
        # the name is spelled in another letter case where it is declared / where it is used
        if draw(st.integers(0, 2)) > 0:
            defname = draw(st.sampled_from([name.upper(), name.capitalize()]))
        else:
            refname = name.upper()
        tags.add('cte:case-differs')
    x = refname if kind == 'no-alias' else 'x1'
    ref = refname if kind == 'no-alias' else f'{refname} AS x1'
    # the join key is compared with the column that only one side has where that is possible (v / <cb>), so the case
    # does not depend on how a bare column name would be resolved
    if kind == 'alias-right':
        frm = f'{b[0]}.{b[1]} AS z {jk} {ref} ON ({x}.v = z.{cb})'
        tcols = [f'{x}.v AS c0', f'z.{cb} AS c1', f'{x}.a AS c2']
    elif kind == 'self':
        frm = f'{ref} {jk} {refname} AS x2 ON ({x}.a = x2.v) {draw(st.sampled_from(["JOIN", "LEFT JOIN"]))} {b[0]}.{b[1]} AS z ON (x2.a = z.a)'
        tcols = [f'{x}.v AS c0', 'x2.a AS c1', f'z.{cb} AS c2']
    else:
        on = draw(st.sampled_from([f'({x}.a = z.a)', f'({x}.v = z.{cb})']))
        frm = f'{ref} {jk} {b[0]}.{b[1]} AS z ON {on}'
        tcols = [f'{x}.v AS c0', f'z.{cb} AS c1']
    where = ''
    if draw(st.integers(0, 2)) == 0:
        where = f' WHERE ({x}.v {draw(st.sampled_from([">", "<=", "!="]))} {draw(st.integers(0, 2))})'
        tags.add('where')
    sql = f'WITH {defname} AS ({body}) SELECT {", ".join(tcols)} FROM {frm}{where}'
    meta = {'order_cols': [], 'total_order': False, 'limit': False, 'tags': sorted(tags), 'places': ['int1', 'int2'],
            'tables': sorted({f'{a[0]}.{a[1]}', f'{b[0]}.{b[1]}'}), 'types': ['int'] * len(tcols)}
    return {'sql': sql, 'meta': meta}


# ---- bounded-exhaustive part of the order-item family -------------------------------------------------------------
ORDER_DATA = [
    # the columns of a table are sorted against each other (ordering by the wrong column keeps other rows), NULL keys
    {'t1': [[0, 3, 'x'], [1, 2, 'y'], [2, 1, 'x'], [3, 0, None], [None, 1, 'y']], 't2': [[0, 3], [1, 2], [2, 1], [3, 0]],
     't3': [[0, 3], [1, 2], [2, 1], [3, 0], [None, 2]], 't4': [[0, 2], [1, 3], [2, 0], [3, 1]],
     'int2.t1': [[0, 3, 'x'], [1, 2, 'y'], [2, 1, 'y'], [3, 0, 'x']]},
    # duplicate keys, rows without a partner in the other integration
    {'t1': [[1, 1, 'x'], [1, 3, 'y'], [2, 0, 'x'], [3, 2, 'x']], 't2': [[1, 2], [2, 3], [2, 0]],
     't3': [[2, 1], [2, 3], [0, 0], [1, 2]], 't4': [[3, 1], [1, 0], [3, 2]], 'int2.t1': [[2, 3, 'x'], [0, 1, 'y'], [2, 0, 'y']]},
]
TARGET_FORMS = [('plain', 'plain'), ('renamed', 'renamed'), ('plain', 'renamed'), ('computed', 'plain'),
                ('computed-unnamed', 'renamed')]
ITEM_FORMS = ['position', 'column', 'alias', 'neg', 'plus0', 'func', 'alias-expr']
LIMITS = [' LIMIT 2', ' LIMIT 1', ' LIMIT 1 OFFSET 1', '']


def order_item_space():
    """Every (source x select-list order x target forms x ORDER BY item form on each target x direction x LIMIT) of
    the order-item family with one ORDER BY item, over two fixed table contents (taken in turn)."""
    sources = []
    for t in INT2_TABLES:
        c0, c1 = int_cols(t)[:2]
        sources.append(('api', f'{t[0]}.{t[1]} AS x1', 'api-int2', ['int2'], [f'{t[0]}.{t[1]}'],
                        [(('x1', c0), ('x1', c1)), (('x1', c1), ('x1', c0))]))
    for a, b, jk, cat in ((('int1', 't1'), ('int2', 't3'), 'LEFT JOIN', 'names'), (('int2', 't4'), ('int1', 't2'), 'LEFT JOIN', 'default-int1'),
                          (('int1', 't2'), ('int2', 't1'), 'JOIN', 'dicts'), (('int2', 't3'), ('int1', 't1'), 'LEFT OUTER JOIN', 'api-int2')):
        a0, a1 = int_cols(a)[:2]
        b1 = int_cols(b)[1]
        sources.append(('join' if cat != 'api-int2' else 'join-api', f'{a[0]}.{a[1]} AS x1 {jk} {b[0]}.{b[1]} AS x2 ON (x1.a = x2.a)', cat,
                        ['int1', 'int2'], sorted([f'{a[0]}.{a[1]}', f'{b[0]}.{b[1]}']),
                        [(('x1', a0), ('x1', a1)), (('x1', a1), ('x1', a0)), (('x1', a1), ('x2', b1)), (('x2', b1), ('x1', a0))]))
    i = j = 0
    for src, frm, cat, places, tables, selections in sources:
        for picked in selections:
            for forms in TARGET_FORMS:
                targets = []
                for k, ((al, c), form) in enumerate(zip(picked, forms)):
                    targets.append({'plain': (f'{al}.{c}', None), 'renamed': (f'{al}.{c}', f'c{k}'),
                                    'computed': (f'({al}.{c} + 1)', f'c{k}'), 'computed-unnamed': (f'({al}.{c} + 1)', None)}[form])
                tl = ', '.join(t_ if a_ is None else f'{t_} AS {a_}' for t_, a_ in targets)
                for k, (al, c) in enumerate(picked):
                    for form in ITEM_FORMS:
                        if form in ('alias', 'alias-expr') and targets[k][1] is None:
                            continue
                        txt = {'position': str(k + 1), 'column': f'{al}.{c}', 'alias': targets[k][1], 'neg': f'(- {al}.{c})',
                               'plus0': f'({al}.{c} + 0)', 'func': f'abs({al}.{c})', 'alias-expr': f'({targets[k][1]} + 0)'}[form]
                        j += 1
                        # api source: the full product; joins: the direction alternates, three LIMIT variants
                        for dr in (('', ' DESC') if src == 'api' else (('', ' DESC')[j % 2],)):
                            for lim in (LIMITS if src == 'api' else LIMITS[:1] + LIMITS[2:]):
                                i += 1
                                base = f'SELECT {tl} FROM {frm} ORDER BY {txt}{dr}'
                                tags = {'shape:order-item', 'shape:order-item-exhaustive', 'order-src:' + src, 'order',
                                        'order-item:' + form,
                                        'targets:plain' if forms == ('plain', 'plain') else 'targets:not-plain'}
                                meta = {'order_cols': [k], 'total_order': False, 'limit': bool(lim)}
                                if lim:
                                    tags |= {'limit', 'limit:partial-order'}
                                    meta['sql_unlimited'] = base
                                if 'OFFSET' in lim:
                                    tags.add('offset')
                                meta.update({'tags': sorted(tags), 'places': places, 'tables': tables, 'types': ['int', 'int']})
                                yield {'sql': base + lim, 'meta': meta, 'data': ORDER_DATA[i % 2], 'catalog': cat}
