"""G-routing: statements whose tables / models live in several places, with tables in every position that C10 lists,
random spelling of every qualifier, and the generator's own expectation of where each reference belongs.

The world (semantic catalog):
  SQL integrations int1, int2; optionally api1 (class_type api); projects proj and mindsdb; models proj.pred,
  mindsdb.pred2 (plain), proj.tsp (time series, order by a, group by b), mindsdb.tsn (time series, no groups);
  default namespace one of mindsdb / int1 / proj / absent.
Data tables (columns a, b everywhere; nothing is executed): see DATA.  Traps: `int1.pred` and `int2.tsp` are data
tables named like models, `t1` exists in several places, `sch.t5` is a two-part table name inside int1, `zzz.t9` /
`sch.t8` are two-part names whose first part is no database (they live in the default namespace).

All random choices are Hypothesis draws.  No alias or column is ever named like a database.
"""
from hypothesis import strategies as st

DATA = {
    'int1': [('t1',), ('t2',), ('pred',), ('sch', 't5')],
    'int2': [('t3',), ('t4',), ('t1',), ('tsp',)],
    'api1': [('t6',), ('t1',)],
    'proj': [('v1',), ('t1',)],
    'mindsdb': [('v2',), ('t4',)],
}
DEFAULT_ONLY = [('t7',), ('sch', 't8'), ('zzz', 't9')]
MODELS = [('proj', 'pred', None), ('mindsdb', 'pred2', None),
          ('proj', 'tsp', {'order_by_column': 'a', 'group_by_columns': ['b'], 'window': 2}),
          ('mindsdb', 'tsn', {'order_by_column': 'a', 'group_by_columns': [], 'window': 3})]
MODEL_KEYS = {(p, m) for p, m, _ in MODELS}
DB_NAMES = ['int1', 'int2', 'api1', 'proj', 'mindsdb']

POSITIONS = ['where-in', 'where-scalar', 'where-exists', 'target', 'case-operand', 'case-when', 'case-then',
             'case-else', 'func-arg', 'func-from-arg', 'where-case-operand', 'where-func-arg']


def spellings(q):
    out = [q, q.upper(), q.capitalize(), q[0] + q[1:].upper()]
    if q == 'mindsdb':
        out.append('MindsDB')
    return out


@st.composite
def catalogs(draw):
    api = draw(st.integers(0, 3)) == 0
    return {'dn': draw(st.sampled_from(['mindsdb', 'mindsdb', 'int1', 'proj', None])),
            'api': api,
            'enc': 'dicts' if api else draw(st.sampled_from(['names', 'dicts'])),
            'pm': draw(st.sampled_from(['list', 'legacy'])),
            'catcase': draw(st.sampled_from(['lower', 'lower', 'upper', 'mixed']))}


class RGen:
    def __init__(self, draw, spec):
        self.draw = draw
        self.spec = spec
        self.dn = spec['dn']
        self.tags = set()
        self.refs = []          # generator's expectation: ['table', place|None, [parts]] | ['model', project, [parts]]
        self.n = 0
        self.ctes = []
        self.top_level = True
        # half of the statements spell the qualifiers of direct JOIN operands in lower case, so that plans with joins
        # are also explored behind the (known) case-sensitive resolver of the join planner
        self.join_lower = draw(st.integers(0, 1)) == 1
        self.in_join = 0
        if self.join_lower:
            self.tags.add('gen:join-operands-lower')

    # ---- helpers
    def pick(self, seq):
        seq = list(seq)
        return seq[0] if len(seq) == 1 else seq[self.draw(st.integers(0, len(seq) - 1))]

    def chance(self, num, den):
        return self.draw(st.integers(0, den - 1)) < num

    def alias(self, p='x'):
        self.n += 1
        return f'{p}{self.n}'

    def spell(self, q):
        s = q if (self.in_join and self.join_lower) else self.pick(spellings(q))
        self.tags.add('q:lower' if s == q else ('q:upper' if s == q.upper() else 'q:mixed'))
        return s

    def places(self):
        ps = ['int1', 'int1', 'int2', 'int2', 'proj', 'mindsdb']
        if self.spec['api']:
            ps += ['api1', 'api1']
        ps += [None, None]         # unqualified
        return ps

    # ---- references
    def data_ref(self, places=None, role='read'):
        """text of a data-table reference; records the expectation"""
        p = self.pick(places or self.places())
        if p is None:
            # unqualified: lives in the default namespace (names that are models there are excluded)
            names = [t for t in DATA.get(self.dn, []) if (self.dn, t[-1]) not in MODEL_KEYS or len(t) > 1]
            names = names + DEFAULT_ONLY
            t = self.pick(names)
            self.tags.add('ref:unqualified')
            if len(t) > 1:
                self.tags.add('ref:unqualified-two-part')
            if self.dn is None:
                self.tags.add('ref:unroutable')
            self.refs.append([role, 'table', self.dn, list(t)])
            return '.'.join(t)
        t = self.pick(DATA[p])
        self.tags.add('place:' + p)
        if len(t) > 1:
            self.tags.add('ref:two-part-table')
        if (t[-1] in ('pred', 'tsp')):
            self.tags.add('ref:table-named-like-model')
        self.refs.append([role, 'table', p, list(t)])
        return '.'.join([self.spell(p)] + list(t))

    def model_ref(self, ts=False):
        cands = [(p, m) for p, m, t in MODELS if bool(t) == ts]
        p, m = self.pick(cands)
        parts = [m]
        if self.chance(1, 2):
            parts.append(self.pick(['3', '12', '0']))
            self.tags.add('model:version')
        self.tags.add('model:ts' if ts else 'model:plain')
        self.refs.append(['read', 'model', p, list(parts)])
        if self.dn == p and self.chance(1, 2):
            self.tags.add('model:unqualified')
            return '.'.join(parts)
        return '.'.join([self.spell(p)] + parts)

    # ---- sub-selects used inside expressions
    def sub(self, agg):
        s1 = self.alias('s')
        tgt = f'max({s1}.a)' if agg else f'{s1}.a'
        if not self.chance(1, 4):
            sql = f'SELECT {tgt} FROM {self.data_ref()} AS {s1}'
        else:
            s2 = self.alias('s')
            self.in_join += 1
            sql = f'SELECT {tgt} FROM {self.data_ref()} AS {s1} JOIN {self.data_ref()} AS {s2} ON {s1}.a = {s2}.a'
            self.in_join -= 1
            self.tags.add('sub:join')
        if self.chance(1, 2):
            sql += f' WHERE {s1}.b = {self.pick([1, 2, 3])}'
        return sql

    def sub_expr(self, col, where):
        """(position tag, expression text) with a sub-select in one of the listed positions"""
        if where:
            pos = self.pick(['where-in', 'where-in', 'where-scalar', 'where-exists', 'where-case-operand',
                             'where-func-arg', 'where-case-when'])
        else:
            pos = self.pick(['target', 'target', 'case-operand', 'case-when', 'case-then', 'case-else', 'func-arg',
                             'func-from-arg'])
        self.tags.add('pos:' + pos)
        if pos == 'where-in':
            return f'{col} {self.pick(["IN", "NOT IN"])} ({self.sub(False)})'
        if pos == 'where-scalar':
            return f'{col} {self.pick(["=", "<", ">="])} ({self.sub(True)})'
        if pos == 'where-exists':
            return f'{self.pick(["EXISTS", "NOT EXISTS"])} ({self.sub(False)})'
        if pos == 'where-case-operand':
            return f'CASE ({self.sub(True)}) WHEN 1 THEN 2 ELSE 3 END = {col}'
        if pos == 'where-case-when':
            return f'CASE WHEN {col} = ({self.sub(True)}) THEN 1 ELSE 0 END = 1'
        if pos == 'where-func-arg':
            return f'coalesce(({self.sub(True)}), 0) = {col}'
        if pos == 'target':
            return f'({self.sub(True)})'
        if pos == 'case-operand':
            return f'CASE ({self.sub(True)}) WHEN 1 THEN {col} ELSE 3 END'
        if pos == 'case-when':
            return f'CASE WHEN {col} = ({self.sub(True)}) THEN 1 ELSE 0 END'
        if pos == 'case-then':
            return f'CASE WHEN {col} = 1 THEN ({self.sub(True)}) ELSE 0 END'
        if pos == 'case-else':
            return f'CASE WHEN {col} = 1 THEN 0 ELSE ({self.sub(True)}) END'
        if pos == 'func-arg':
            return f'{self.pick(["coalesce", "ifnull"])}(({self.sub(True)}), {col})'
        if pos == 'func-from-arg':
            return f"substring('abcdef' FROM ({self.sub(True)}))"
        raise AssertionError(pos)

    # ---- FROM items
    def table_item(self, places=None, force_alias=False):
        """(text, name by which columns are referred to)"""
        before = len(self.refs)
        ref = self.data_ref(places)
        parts = self.refs[before][3]
        if force_alias or self.chance(3, 4):
            al = self.alias('x')
            return f'{ref}{self.pick([" AS ", " "])}{al}', al
        self.tags.add('from:unaliased')
        # un-aliased: columns by table name, or by the full name as written (3-part column reference)
        if self.chance(1, 3) and ref.count('.') >= 1:
            self.tags.add('col:full-name')
            q = ref.split('.')[0]
            if q.lower() in DB_NAMES and self.chance(1, 2):
                # spell the qualifier of the column reference on its own
                ref2 = '.'.join([self.pick(spellings(q.lower()))] + ref.split('.')[1:])
                return ref, ref2
            return ref, ref
        return ref, parts[-1]

    def conds(self, cols, subs_ok=True, maxn=2):
        out = []
        for _ in range(self.draw(st.integers(0, maxn))):
            c = self.pick(cols)
            if subs_ok and self.chance(1, 2):
                out.append(self.sub_expr(c, True))
            else:
                out.append(f'{c} {self.pick(["=", ">", "<=", "!="])} {self.pick([0, 1, 2])}')
        if not out:
            return ''
        glue = ' OR ' if len(out) > 1 and self.chance(1, 5) else ' AND '
        if glue == ' OR ':
            self.tags.add('where:or')
        return ' WHERE ' + glue.join(out)

    def targets(self, names, subs_ok=True):
        if self.chance(1, 3):
            return '*'
        out = []
        for k in range(self.draw(st.integers(1, 3))):
            nm = self.pick(names)
            if subs_ok and self.chance(1, 3):
                out.append(f'{self.sub_expr(nm + ".a", False)} AS c{k}')
            else:
                out.append(f'{nm}.{self.pick(["a", "b"])}' + (f' AS c{k}' if self.chance(1, 2) else ''))
        return ', '.join(out)

    # ---- SELECT shapes
    def select(self, depth, top=True, union=True):
        self.top_level = top
        shapes = ['single', 'single', 'join', 'join', 'join', 'join3', 'tm', 'tm', 'mt', 'tmt', 'tmm', 'model', 'ts',
                  'ts']
        if depth > 0:
            shapes += ['nested', 'join-sub', 'tsdbt'] + (['union'] if union else [])
        if self.ctes:
            shapes += ['join-cte', 'join-cte']
        shape = self.pick(shapes)
        self.tags.add('shape:' + shape)
        subs_ok = depth > 0
        if shape == 'single':
            item, nm = self.table_item()
            return f'SELECT {self.targets([nm], subs_ok)} FROM {item}{self.conds([nm + ".a", nm + ".b"], subs_ok)}' \
                   + self.tail([nm])
        if shape in ('join', 'join3'):
            k = 2 if shape == 'join' else 3
            self.in_join += 1
            items = [self.table_item() for _ in range(k)]
            self.in_join -= 1
            return self.join_sql(items, subs_ok)
        if shape == 'join-sub':
            self.tags.add('pos:from-subselect')
            al = self.alias('q')
            sub = f'(SELECT * FROM {self.data_ref()}{self.pick(["", " WHERE a = 1"])}) AS {al}'
            self.in_join += 1
            items = [self.table_item(), (sub, al)]
            self.in_join -= 1
            if self.chance(1, 2):
                items.reverse()
            return self.join_sql(items, subs_ok)
        if shape == 'join-cte':
            name = self.pick(self.ctes)
            al = self.alias('x')
            self.tags.add('cte:used')
            self.in_join += 1
            items = [self.table_item(), (f'{name} AS {al}', al)]
            self.in_join -= 1
            if self.chance(1, 2):
                items.reverse()
            return self.join_sql(items, subs_ok)
        if shape in ('tm', 'mt', 'tmt', 'tmm'):
            self.in_join += 1
            t, tn = self.table_item(force_alias=True)
            m = self.alias('m')
            mi = (f'{self.model_ref()} AS {m}', m)
            items = {'tm': [(t, tn), mi], 'mt': [mi, (t, tn)]}.get(shape)
            if shape == 'tmt':
                items = [(t, tn), mi, self.table_item(force_alias=True)]
            if shape == 'tmm':
                m2 = self.alias('m')
                items = [(t, tn), mi, (f'{self.model_ref()} AS {m2}', m2)]
            self.in_join -= 1
            return self.join_sql(items, subs_ok, model_aliases=[a for _, a in items if a.startswith('m')])
        if shape == 'model':
            mref = self.model_ref()
            w = ' AND '.join(f'{c} = {self.pick([1, 2])}' for c in (['a', 'b'] if self.chance(1, 2) else ['a']))
            return f'SELECT {self.pick(["*", "a, b", "p"])} FROM {mref} WHERE {w}'
        if shape == 'ts':
            self.in_join += 1
            m = self.alias('m')
            first = self.chance(1, 6)
            if first:
                self.tags.add('ts:model-first')
                mref = self.model_ref(ts=True)
            t, tn = self.table_item(force_alias=True)
            if not first:
                mref = self.model_ref(ts=True)
            self.in_join -= 1
            grouped = any(r[1] == 'model' and r[3][0] == 'tsp' for r in self.refs[-2:])
            ws = [f'{tn}.a > LATEST', f'{tn}.a > 1', f'{tn}.a = 2', f'{tn}.a BETWEEN 1 AND 3', '']
            if grouped:
                ws += [f'{tn}.a > 1 AND {tn}.b = 2', f'{tn}.b = 1', f'{tn}.a >= 2 AND {tn}.b = 1']
            w = self.pick(ws)
            jk = self.pick(['JOIN', 'LEFT JOIN'])
            if first:
                sql = f'SELECT * FROM {mref} AS {m} {jk} {t}'
            else:
                sql = f'SELECT {self.pick(["*", f"{tn}.a, {m}.p"])} FROM {t} {jk} {mref} AS {m}'
            if w:
                sql += ' WHERE ' + w
            if top and self.chance(1, 4):
                sql += ' LIMIT 5'
            return sql
        if shape == 'tsdbt':
            self.tags.add('pos:from-subselect')
            al, q, m = self.alias('x'), self.alias('q'), self.alias('m')
            # the inner table is always qualified by a database: for a name without one the planner documents a
            # workaround for dbt (the integration of the CREATE / INSERT target is assumed) that departs from the
            # property on purpose
            inner = (f'SELECT * FROM {self.data_ref(places=[p for p in self.places() if p is not None])} AS {al}'
                     f'{self.pick(["", f" WHERE {al}.b = 1"])}')
            w = self.pick([f' WHERE {q}.a > LATEST', f' WHERE {q}.a > 1', ''])
            self.in_join += 1
            mr = self.model_ref(ts=True)
            self.in_join -= 1
            if self.refs[-1][3][0] != 'tsp':
                inner = inner.replace(f' WHERE {al}.b = 1', '')      # only group columns may be filtered
            return f'SELECT * FROM ({inner}) AS {q} JOIN {mr} AS {m}{w}'
        if shape == 'nested':
            self.tags.add('pos:from-subselect')
            q = self.alias('q')
            inner = self.select(depth - 1, top=False)
            self.top_level = top
            return f'SELECT {self.pick(["*", f"{q}.a"])} FROM ({inner}) AS {q}{self.pick(["", f" WHERE {q}.a = 1", " LIMIT 3"] if top else ["", f" WHERE {q}.a = 1"])}'
        if shape == 'union':
            self.tags.add('pos:union')
            op = self.pick(['UNION', 'UNION ALL', 'INTERSECT', 'EXCEPT'])
            return f'{self.select(depth - 1, top=False)} {op} {self.select(depth - 1, top=False)}'
        raise AssertionError(shape)

    def tail(self, names):
        if not self.top_level:
            return ''
        if self.chance(1, 5):
            return f' ORDER BY {names[0]}.a' + (' LIMIT 2' if self.chance(1, 2) else '')
        if self.chance(1, 8):
            return ' LIMIT 3'
        return ''

    def join_sql(self, items, subs_ok, model_aliases=()):
        names = [a for _, a in items]
        data_names = [a for a in names if a not in model_aliases] or names
        implicit = self.chance(1, 6)
        sql = items[0][0]
        for i, (txt, a) in enumerate(items[1:], 1):
            if implicit:
                sql += f', {txt}'
                self.tags.add('join:implicit')
            else:
                jk = self.pick(['JOIN', 'JOIN', 'LEFT JOIN', 'INNER JOIN'] + ([] if model_aliases else ['RIGHT JOIN', 'FULL JOIN']))
                on = ''
                if a not in model_aliases and names[i - 1] not in model_aliases or self.chance(1, 2):
                    on = f' ON {names[i - 1]}.a = {a}.a'
                    if self.chance(1, 5):
                        on += f' AND {a}.b = 1'
                sql += f' {jk} {txt}{on}'
        cols = [f'{n}.{c}' for n in data_names for c in ('a', 'b')]
        return f'SELECT {self.targets(names, subs_ok)} FROM {sql}{self.conds(cols, subs_ok)}' + self.tail(data_names)

    # ---- statements
    def statement(self):
        kind = self.pick(['select'] * 6 + ['cte', 'insert', 'update', 'delete', 'create', 'insert-values'])
        if kind == 'cte' and self.dn in ('mindsdb', 'int1') and self.chance(1, 3):
            # one data integration + a CTE whose name equals the last name part of a project object that the main
            # query also uses (qualified): the project object must still be routed to its project
            self.tags.add('stmt:cte')
            self.tags.add('pos:cte')
            self.tags.add('cte:name-collides')
            self.tags.add('shape:cte-collides-with-project-object')
            obj = self.pick(['v1', 't1'] if self.dn != 'proj' else ['v1'])
            t_a, t_b = self.pick(['t1', 't2']), self.pick(['t1', 't2'])
            q = self.spell('int1')
            self.refs.append(['read', 'table', 'int1', [t_a]])
            self.refs.append(['read', 'table', 'int1', [t_b]])
            self.refs.append(['read', 'table', 'proj', [obj]])
            self.ctes.append(obj)
            pq = self.spell('proj')
            if self.chance(1, 2):
                main = (f'SELECT x.a, y.b FROM {q}.{t_b} AS x JOIN {pq}.{obj} AS y ON x.a = y.a '
                        f'{self.pick(["", "WHERE x.a > 1", "LIMIT 3"])}')
            else:
                main = f'SELECT x.a FROM {q}.{t_b} AS x WHERE x.a IN (SELECT y.a FROM {pq}.{obj} AS y)'
            use_cte = self.chance(1, 2)
            if use_cte:
                main = main.replace(' AS x', f' AS x JOIN {obj} AS z ON x.a = z.a', 1) if ' JOIN ' in main else main
            return f'WITH {obj} AS (SELECT * FROM {q}.{t_a}) {main}'.strip()
        self.tags.add('stmt:' + kind)
        if kind == 'select':
            return self.select(2)
        if kind == 'cte':
            self.tags.add('pos:cte')
            parts = []
            for i in range(self.draw(st.integers(1, 2))):
                body = self.select(1, top=False) if self.chance(1, 2) else \
                    f'SELECT * FROM {self.data_ref()}{self.pick(["", " WHERE a > 1"])}'
                # the CTE name sometimes equals the (last part of the) name of a table / view / model that lives
                # elsewhere: `WITH v1 AS (...) ... JOIN proj.v1` must still route proj.v1 to the project
                cname = f'cte{i}'
                # (only names that are never written unqualified under this default namespace, so that scoping of the
                # CTE name cannot capture a real table reference)
                cand = [n for n in (('v1',) if self.dn != 'proj' else ()) + (('v2',) if self.dn != 'mindsdb' else ())
                        + ('t3',) if n not in self.ctes]
                if cand and self.chance(1, 4):
                    cname = self.pick(cand)
                    self.tags.add('cte:name-collides')
                parts.append(f'{cname} AS ({body})')
                self.ctes.append(cname)
            if self.chance(1, 3):
                al = self.alias('x')
                main = f'SELECT {al}.a FROM {self.pick(self.ctes)} AS {al}{self.conds([al + ".a"], True, 1)}'
            else:
                main = self.select(1)
            return 'WITH ' + ', '.join(parts) + ' ' + main
        if kind == 'insert':
            self.tags.add('pos:insert-select')
            tgt = self.data_ref(role='target')
            return f'INSERT INTO {tgt} (a, b) {self.select(1)}'
        if kind == 'insert-values':
            return f'INSERT INTO {self.data_ref(role="target")} (a, b) VALUES (1, 2)'
        if kind == 'create':
            self.tags.add('pos:create-select')
            tgt = self.data_ref(places=[p for p in self.places() if p is not None], role='target')
            return f'CREATE {self.pick(["", "OR REPLACE "])}TABLE {tgt} ({self.select(1)})'
        if kind == 'update':
            self.tags.add('pos:update-from')
            tgt = self.data_ref(role='target')
            return f'UPDATE {tgt} SET a = df.a FROM ({self.select(1, union=False)}) AS df WHERE {tgt.split(".")[-1]}.a = df.a'
        if kind == 'delete':
            self.tags.add('pos:delete')
            tgt = self.data_ref(role='target')
            w = []
            for _ in range(self.draw(st.integers(1, 2))):
                if self.chance(1, 2):
                    self.tags.add('pos:delete-where-sub')
                    w.append(f'a {self.pick(["IN", "NOT IN"])} ({self.sub(False)})')
                elif self.chance(1, 3) and tgt.count('.'):
                    self.tags.add('col:full-name')
                    w.append(f'{tgt}.a = 1')
                else:
                    w.append(f'b = {self.pick([1, 2])}')
            return f'DELETE FROM {tgt} WHERE ' + ' AND '.join(w)
        raise AssertionError(kind)


@st.composite
def statements(draw):
    spec = draw(catalogs())
    g = RGen(draw, spec)
    sql = g.statement()
    return {'sql': sql, 'catalog': spec, 'meta': {'tags': sorted(g.tags), 'refs': g.refs}}
