"""C17 — further bounded-exhaustive families (import nothing from the library at module level).

deep_cases      chains / nests of one construct at a depth where the tree's own printer is far from the recursion limit
                but SQLAlchemy's compiler (5-8 frames per level) is not: the compile step has to turn its RecursionError
                into a refusal (fallback), the build step (to_expression & co, <= 2.3 frames per level) must not recurse
                deeper than the printer does.
name_cases      names made of characters that mean something to SQLAlchemy's text layer (bind markers ':a', '%', '%(a)s',
                quotes of the seven targets, dots, blanks, control characters, keywords, very long names) in every
                position that the renderer hands to sa.column / sa.table / sa.Column / label / alias / cte / subquery.
func_arg_cases  every function name SQLAlchemy registers a class for x every kind of argument node the grammar admits
                (sub-select, parameter, interval, LATEST, variable, EXISTS, CASE, BETWEEN, window, cast, tuple, star
                path, boolean, ...) x 6 argument-list forms (the catalogue of c17.py varies the list shape over plain
                columns only; the typed function classes look at their arguments: ReturnTypeFromArgs, next_value, ...).
"""

DEEP_DEPTHS = {'quick': (60, 160), 'thorough': (30, 60, 110, 160, 200)}


def deep_shapes(n):
    return {
        'fn': 'select ' + 'f(' * n + 'a' + ')' * n + ' from t',
        'fn-distinct': 'select ' + 'f(distinct ' * n + 'a' + ')' * n + ' from t',
        'fn-from': 'select ' + 'f(a from ' * n + 'a' + ')' * n + ' from t',
        'plus': 'select ' + ' + '.join(['a'] * n) + ' from t',
        'plus-right': 'select ' + 'a + (' * n + 'a' + ')' * n + ' from t',
        'concat': 'select ' + ' || '.join(['a'] * n) + ' from t',
        'and': 'select * from t where ' + ' and '.join(f'a = {i}' for i in range(n)),
        'or-right': 'select * from t where ' + 'a = 1 or (' * n + 'b = 2' + ')' * n,
        'neg': 'select ' + '- ' * n + 'a from t',
        'not': 'select * from t where ' + 'not ' * n + 'a',
        'between': 'select ' + 'a between 1 and (' * n + '2' + ')' * n + ' from t',
        'case': 'select ' + 'case when a then ' * n + '1' + ' end' * n + ' from t',
        'case-arg': 'select ' + 'case ' * n + 'a' + ' when 1 then 2 end' * n + ' from t',
        'tuple': 'select * from t where a in ' + '(1, ' * n + '2' + ')' * n,
        'scalar': 'select ' + '(select ' * n + '1' + ')' * n,
        'sub': 'select * from ' + '(select * from ' * n + 't' + ') as s' * n,
        'in-sub': 'select * from t where a in ' + '(select a from t where a in ' * (n // 2) + '(1)' + ')' * (n // 2),
        'union': ' union '.join(['select 1'] * n),
        'union-right': 'select 1' + ' union all (select 1' * n + ')' * n,
        'cte': 'with x as (' * (n // 2) + 'select 1' + ') select * from x' * (n // 2),
        'join': 'select * from t0 ' + ' '.join(f'join t{i} on t{i}.a = t0.a' for i in range(1, n)),
        'join-comma': 'select * from ' + ', '.join(f't{i}' for i in range(n)),
        'order': 'select * from t order by ' + 'f(' * n + 'a' + ')' * n + ' desc',
        'group': 'select 1 from t group by ' + ' + '.join(['a'] * n) + ' having ' + 'not ' * n + 'a',
        'window': 'select sum(a) over (partition by ' + 'f(' * n + 'a' + ')' * n + ') from t',
        'update': 'update t set a = ' + 'f(' * n + 'a' + ')' * n + ' where ' + 'not ' * n + 'b',
        'delete': 'delete from t where ' + 'not ' * n + 'a',
        'insert': 'insert into t (a) values (' + 'f(' * n + '1' + ')' * n + ')',
        'insert-select': 'insert into t (a) select * from ' + '(select * from ' * n + 't' + ') as s' * n,
        'wide-in': 'select * from t where a in (' + ', '.join(map(str, range(n * 20))) + ')',
        'wide-values': 'insert into t (a, b) values ' + ', '.join(f'({i}, {i})' for i in range(n * 5)),
        'wide-targets': 'select ' + ', '.join(f'a{i}' for i in range(n * 10)) + ' from t',
    }


def deep_cases(tier):
    out = []
    for n in DEEP_DEPTHS[tier]:
        for i, (name, sql) in enumerate(deep_shapes(n).items()):
            dialects = ('mindsdb', 'mysql', 'sqlite') if tier == 'thorough' else (('mindsdb', 'mysql', 'sqlite')[i % 3],)
            for d in dialects:
                out.append({'dialect': d, 'sql': sql, 'origin': f'deep:{name}:{n}'})
    return out


ODD_NAMES = ['`%`', '`%s`', '`%(a)s`', '`:a`', '`a:b`', '`a"b`', "`a'b`", '`a\nb`', '`a.b`', '`a\\b`', '`é`', '`a]b`', '`[a]`', '`*`',
             '`?`', '`' + 'x' * 300 + '`', '"a b"', '"%"', '":a"', "'a'", '`1`', '`1a`', '`null`', '`select`', '`{a}`', '` `',
             '`a b`.`:c`', '`%`.`%`', 'a.`%s`']
NAME_TEMPLATES = ['update t set {n} = 1', 'update t set {n} = 1, b = 2 where {n} > 0', 'insert into t ({n}) values (1)',
                  'insert into t ({n}, b) values (1, 2), (3, 4)', 'select {n} from t', 'select t.{n} from t', 'select * from {n}',
                  'select a as {n} from t', 'create table t ({n} int)', 'create table {n} (a int)', 'delete from t where {n} = 1',
                  'select {n}(a) from t', 'select * from t as {n}', 'select * from t order by {n}', 'select cast(a as {n}) from t',
                  'insert into {n} (a) values (1)', 'update {n} set a = 1', 'select * from t join u on t.{n} = u.{n}',
                  'with {n} as (select 1) select * from {n}', 'select count(*) over (partition by {n}) from t',
                  'select * from t as {n} join u as {n} on 1 = 1', 'select a as {n}, b as {n} from t', 'select * from {n}.{n}',
                  'select {n}.{n}.{n} from t', 'select * from (select 1) as {n}', 'select * from int1 (select 1) as {n}', 'drop table {n}',
                  'select {n} from t union select 1', 'select a from t group by {n} having {n} > 1', 'select cast(a as int) as {n}',
                  'select exists (select 1) as {n}', 'select case when a then 1 end as {n}', 'select a between 1 and 2 as {n}',
                  'select sum(a) over () as {n}', 'select f(a) as {n}', 'select (select 1) as {n}', 'select 1 as {n}', 'select a + 1 as {n}',
                  'select - a as {n}', "select interval '1 day' as {n}", 'create table t (a text default {n})', 'delete from {n}',
                  'insert into t (a) select {n} from {n}']


def name_cases(tier):
    out = []
    i = 0
    for tpl in NAME_TEMPLATES:
        for n in ODD_NAMES:
            i += 1
            dialects = ('mindsdb', 'mysql', 'sqlite') if tier == 'thorough' else (('mindsdb', 'mysql', 'sqlite')[i % 3],)
            if tier == 'quick' and i % 3:
                continue
            for d in dialects:
                out.append({'dialect': d, 'sql': tpl.replace('{n}', n), 'origin': 'names'})
    return out


ARG_KINDS = ['(select 1)', '?', "interval '1 day'", 'latest', 'last', '@v', 'exists (select 1)', 'case when a then 1 end',
             'a between 1 and 2', 'f(a)', 'sum(a) over ()', 'cast(a as int)', 'a + 1', 'not a', '- a', 'a is null', 'a in (1, 2)',
             '(a, b)', 'true', '1.5', "'x'", 'x.*', 'a.b.c', 'current_date', 'a = 1', 'a and b', '(select 1, 2)', 'count(*)', 'null']
ARG_FORMS = ['{f}({a})', '{f}({a}, {a})', '{f}(1, {a})', '{f}(distinct {a})', '{f}({a} from {a})', '{f}({a}) over (order by {a})']


def func_arg_cases(tier):
    from sqlalchemy.sql import functions as saf
    names = sorted(set(saf._registry.get('_default', {})))
    out = []
    i = 0
    for f in names:
        for a in ARG_KINDS:
            for j, form in enumerate(ARG_FORMS):
                i += 1
                if tier == 'quick' and (i % 10):
                    continue
                out.append({'dialect': ('mindsdb', 'mysql', 'sqlite')[i % 3] if j != 4 else 'mindsdb',
                            'sql': 'select ' + form.format(f=f, a=a) + ' from t', 'origin': 'funcargs'})
    return out
