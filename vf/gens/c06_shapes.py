"""Statement shapes for C06 that the shared typed model (vf/gens/model.py) does not produce.

Every shape is written for SQLite (the reference engine) over the schema of the model (t1(a, b, s), t2(a, c), t3(a, d),
t4(a, e)); compound operands are parenthesised except in the operator-rank list, whose subject is exactly the missing
parentheses.  Each shape carries a feature tag that names the mechanism it is after.
"""
from hypothesis import strategies as st

from vf.gens import model


def _pick(draw, seq):
    seq = list(seq)
    return seq[draw(st.integers(0, len(seq) - 1))] if len(seq) > 1 else seq[0]


def _sel(sql, tags, order_cols=(), total_order=False, **extra):
    c = {'sql': sql, 'kind': 'select',
         'meta': {'order_cols': list(order_cols), 'total_order': total_order, 'limit': False, 'tags': sorted(tags)}}
    c.update(extra)
    return c


def _dml(sql, tags, new_tables=(), **extra):
    c = {'sql': sql, 'kind': 'dml', 'meta': {'tags': sorted(tags)}, 'new_tables': list(new_tables)}
    c.update(extra)
    return c


# ---- "+" next to an operand that SQLAlchemy types as a string
INT_OPERANDS = ['{q}a', '{q}b', '1', '2', '({q}a * 2)', '({q}a - {q}b)']
TEXT_TYPED = ["'5'", "'0'", "'1'", 'CAST({q}a AS TEXT)', 'CAST({q}b AS CHAR)', 'CAST({q}a AS VARCHAR)',
              "(CASE WHEN ({q}a > 1) THEN '1' ELSE '2' END)", "coalesce('3', {q}s)", "(SELECT '7')", "({q}s || '1')",
              "max('3', {q}s)"]


def plus_text(draw):
    ctx = _pick(draw, ['target', 'where', 'nested', 'update', 'delete', 'insert'])
    q = 'x1.' if ctx in ('target', 'where', 'nested') else ''
    form = draw(st.integers(0, 2))
    i, t, t2 = _pick(draw, INT_OPERANDS), _pick(draw, TEXT_TYPED), _pick(draw, TEXT_TYPED)
    l, r = [(i, t), (t, i), (t, t2)][form]
    e = f'({l} + {r})'.format(q=q)
    tags = {'op:plus-text-operand', 'plus-text:' + ctx}
    if ctx == 'target':
        return _sel(f'SELECT {e} AS c0, x1.a AS c1, x1.b AS c2 FROM t1 AS x1', tags)
    if ctx == 'where':
        return _sel(f'SELECT x1.a AS c0, x1.b AS c1, x1.s AS c2 FROM t1 AS x1 WHERE ({e} > 1)', tags)
    if ctx == 'nested':
        return _sel(f'SELECT ({e} * 2) AS c0, (1 - {e}) AS c1, ({e} || \'z\') AS c2 FROM t1 AS x1', tags)
    if ctx == 'update':
        where = _pick(draw, ['', ' WHERE (a > 0)', f' WHERE ({e} > 2)'])
        return _dml(f'UPDATE t1 SET b = {e}{where}', tags | {'dml:update'})
    if ctx == 'delete':
        return _dml(f'DELETE FROM t1 WHERE ({e} = {_pick(draw, [1, 2, 3, 6])})', tags | {'dml:delete'})
    return _dml(f'INSERT INTO t2 (a, c) SELECT a, {e} FROM t1', tags | {'dml:insert'})


# ---- an operand of AND / OR / NOT / ON / HAVING that SQLAlchemy types as a boolean
BOOL_TYPED = ['CAST({q}a AS BOOLEAN)', 'CAST({q}b AS BOOL)', 'CAST(({q}a - 1) AS BOOLEAN)',
              '(CASE WHEN ({q}a IS NULL) THEN TRUE ELSE {q}b END)', '(CASE WHEN ({q}a > 5) THEN FALSE ELSE {q}a END)',
              'max(({q}a > 5), {q}b)', 'min(({q}a < 5), {q}b)', 'coalesce(({q}a > 5), {q}b)']
BOOL_TYPED_GROUPED = ['CAST(x1.a AS BOOLEAN)', 'CAST(max(x1.b) AS BOOLEAN)',
                      '(CASE WHEN (count(*) > 5) THEN TRUE ELSE x1.a END)', 'coalesce((x1.a > 5), max(x1.b))']


def bool_typed(draw):
    ctx = _pick(draw, ['and', 'or', 'not', 'on', 'having', 'target', 'delete', 'update'])
    q = '' if ctx in ('delete', 'update') else 'x1.'
    b = _pick(draw, BOOL_TYPED).format(q=q)
    p = _pick(draw, ['({q}b IS NOT NULL)', "({q}s = 'x')", '({q}a >= {q}b)']).format(q=q)
    tags = {'bool-typed-operand', 'bool-typed:' + ctx}
    if ctx in ('and', 'or'):
        cond = f'({b} {ctx.upper()} {p})' if draw(st.booleans()) else f'({p} {ctx.upper()} {b})'
        return _sel(f'SELECT x1.a AS c0, x1.b AS c1, x1.s AS c2 FROM t1 AS x1 WHERE {cond}', tags)
    if ctx == 'not':
        cond = _pick(draw, [f'(NOT {b})', f'((NOT {b}) AND {p})', f'(NOT ({b} AND {p}))'])
        return _sel(f'SELECT x1.a AS c0, x1.b AS c1, x1.s AS c2 FROM t1 AS x1 WHERE {cond}', tags)
    if ctx == 'on':
        kind = _pick(draw, ['JOIN', 'LEFT JOIN', 'INNER JOIN'])
        cond = _pick(draw, [b, f'({b} AND (x1.a = x2.a))'])
        return _sel(f'SELECT x1.a AS c0, x1.b AS c1, x2.c AS c2 FROM t1 AS x1 {kind} t2 AS x2 ON {cond}', tags)
    if ctx == 'having':
        h = _pick(draw, BOOL_TYPED_GROUPED)
        h = _pick(draw, [h, f'({h} AND (count(*) > 0))'])
        return _sel(f'SELECT x1.a AS c0, count(*) AS c1 FROM t1 AS x1 GROUP BY x1.a HAVING {h}', tags | {'group', 'having'})
    if ctx == 'target':
        return _sel(f'SELECT x1.a AS c0, x1.b AS c1, ({b} AND 1) AS c2, ({p} OR {b}) AS c3, (NOT {b}) AS c4 '
                    f'FROM t1 AS x1', tags)
    if ctx == 'delete':
        return _dml(f'DELETE FROM t1 WHERE ({b} AND {p})', tags | {'dml:delete'})
    return _dml(f'UPDATE t1 SET s = \'w\' WHERE ({b} OR {p})', tags | {'dml:update'})


# ---- result columns without alias, which the renderer labels itself (constant -> its text, CAST(col) -> col),
#      and an ORDER BY that names a table column spelled like that label
def captured_order(draw):
    form = _pick(draw, ['const', 'cast'])
    tags = {'order', 'order:names-column-spelled-like-added-label', 'added-label:' + form}
    if form == 'const':
        col = _pick(draw, ['a', 'b', 's'])
        other = [c for c in ['a', 'b', 's'] if c != col]
        d = _pick(draw, ['', ' DESC'])
        # rows = (constant, other columns..., the ordering column): the keys determine the row
        return _sel(f"SELECT '{col}', x1.{other[0]} AS c1, x1.{other[1]} AS c2, x1.{col} AS c3 FROM t1 AS x1 "
                    f"ORDER BY {col}{d}, c1, c2", tags, order_cols=[3, 1, 2], total_order=True)
    col, typ = _pick(draw, [('s', 'INT'), ('s', 'FLOAT'), ('s', 'INTEGER'), ('a', 'TEXT')])
    other = [c for c in ['a', 'b', 's'] if c != col]
    d = _pick(draw, ['', ' DESC'])
    return _sel(f"SELECT CAST({col} AS {typ}), {other[0]} AS c1, {other[1]} AS c2, {col} AS c3 FROM t1 "
                f"ORDER BY {col}{d}, c1, c2", tags, order_cols=[3, 1, 2], total_order=True)


# ---- operators the renderer prints through op(): '->' (SQLite >= 3.38 reads it)
ARROW_LEFT = ['(x1.a + 1)', '(x1.a * 2)', '(x1.a - x1.b)', '(x1.a = 1)', '(x1.a < x1.b)', '(- x1.a)',
              '(x1.a BETWEEN 0 AND 1)', '(x1.a IS NULL)', '(x1.a OR x1.b)', '(NOT x1.a)', '(x1.a % 2)', '(x1.a / 2)',
              "(x1.a || '1')"]


def json_arrow(draw):
    l, l2 = _pick(draw, ARROW_LEFT), _pick(draw, ARROW_LEFT)
    tags = {'op:json-arrow'}
    form = draw(st.integers(0, 2))
    if form == 0:
        return _sel(f"SELECT x1.a AS c0, x1.b AS c1, ({l} -> '$') AS c2, typeof(({l2} -> '$')) AS c3 FROM t1 AS x1", tags)
    if form == 1:
        return _sel(f"SELECT x1.a AS c0, x1.b AS c1, (1 + ({l} -> '$')) AS c2, (({l2} -> '$') || 'z') AS c3 "
                    f"FROM t1 AS x1", tags)
    return _sel(f"SELECT x1.a AS c0, x1.b AS c1 FROM t1 AS x1 WHERE (({l} -> '$') = '1')", tags)


# ---- alias of an EXISTS / NOT EXISTS result column, used from outside
def exists_alias(draw):
    neg = _pick(draw, ['', 'NOT '])
    sub = _pick(draw, ['SELECT 1 FROM t2 AS y1 WHERE (y1.a = x1.a)', 'SELECT y1.c FROM t2 AS y1 WHERE (y1.c > x1.b)'])
    e = f'{neg}EXISTS ({sub})'
    tags = {'alias:exists'}
    form = draw(st.integers(0, 2))
    if form == 0:
        return _sel(f'SELECT s1.c0 AS c0, s1.c1 AS c1 FROM (SELECT {e} AS c0, x1.a AS c1 FROM t1 AS x1) AS s1',
                    tags | {'sub:from'})
    if form == 1:
        return _sel(f'SELECT {e} AS c0, x1.a AS c1, x1.b AS c2, x1.s AS c3 FROM t1 AS x1 ORDER BY c0 DESC, c1, c2, c3',
                    tags | {'order'}, order_cols=[0, 1, 2, 3], total_order=True)
    return _sel(f'WITH w1 AS (SELECT {e} AS c0, x1.a AS c1 FROM t1 AS x1) SELECT w1.c1 AS c0 FROM w1 WHERE (w1.c0 = 1)',
                tags | {'cte'})


# ---- CREATE TABLE IF NOT EXISTS over a table that exists: a no-op
def create_existing(draw):
    t = _pick(draw, sorted(model.SCHEMA))
    first = model.SCHEMA[t][0][0]
    ty = _pick(draw, ['int', 'text', 'varchar(10)'])
    return _dml([f'CREATE TABLE IF NOT EXISTS {t} (k0 {ty})', f'INSERT INTO {t} ({first}) VALUES (7)'],
                {'dml:create', 'dml:create-if-not-exists:table-exists'})


# ---- WITH in front of a parenthesised set operation.  SQLite does not read the parentheses; in SQL the WITH clause
#      belongs to the whole query expression either way, so the text without them is the same statement
def cte_on_setop(draw):
    name = _pick(draw, ['w1', 't3', 't2'])            # a fresh name, or one that hides a real table
    body = _pick(draw, ['SELECT 7 AS a', 'SELECT x1.b AS a FROM t1 AS x1', 'SELECT x1.a AS a FROM t1 AS x1 WHERE (x1.a > 1)'])
    op = _pick(draw, ['UNION', 'UNION ALL', 'EXCEPT', 'INTERSECT'])
    left = f'SELECT y1.a AS c0 FROM {name} AS y1'
    right = _pick(draw, [f'SELECT y2.a AS c0 FROM {name} AS y2 WHERE (y2.a > 0)', 'SELECT y2.a AS c0 FROM t4 AS y2'])
    if draw(st.booleans()):
        left, right = right.replace('y2', 'y1'), left.replace('y1', 'y2')
    w = f'WITH {name} AS ({body})'
    tags = {'cte', 'setop:' + op, 'cte:on-parenthesised-setop'}
    if draw(st.integers(0, 2)) == 0:
        tags |= {'sub:from'}
        return _sel(f'SELECT s1.c0 AS c0 FROM ({w} {left} {op} {right}) AS s1', tags,
                    sql_parsed=f'SELECT s1.c0 AS c0 FROM ({w} ({left} {op} {right})) AS s1')
    return _sel(f'{w} {left} {op} {right}', tags, sql_parsed=f'{w} ({left} {op} {right})')


# ---- OFFSET without LIMIT (SQLite spells it LIMIT -1 OFFSET n)
def offset_only(draw):
    n = _pick(draw, [0, 1, 2, 3])
    d = _pick(draw, ['', ' DESC'])
    head = f'SELECT x1.a AS c0, x1.b AS c1, x1.s AS c2 FROM t1 AS x1 ORDER BY c0{d}, c1, c2'
    return _sel(f'{head} LIMIT -1 OFFSET {n}', {'order', 'offset:without-limit'}, order_cols=[0, 1, 2], total_order=True,
                sql_parsed=f'{head} OFFSET {n}')


# ---- names of the form anon_N in the statement, next to something the renderer names itself
def anon_names(draw):
    n = _pick(draw, [1, 1, 2])
    tags = {'name:anon_N-in-statement'}
    if draw(st.booleans()):
        pad = '(x1.b * 2), ' if n == 2 else ''
        return _sel(f'SELECT * FROM (SELECT {pad}(x1.a + 1), x1.a AS anon_{n} FROM t1 AS x1) AS s1 '
                    f'WHERE (s1.anon_{n} >= 1)', tags | {'anon:column'})
    pad = '(SELECT x0.a FROM t4 AS x0) JOIN ' if n == 2 else ''
    on0 = ' ON (1 = 1)' if n == 2 else ''
    return _sel(f'SELECT anon_{n}.a AS c0 FROM {pad}(SELECT x1.a FROM t1 AS x1 WHERE (x1.a >= 1)){on0} '
                f'JOIN (SELECT x2.d AS a FROM t3 AS x2) AS anon_{n} ON (anon_{n}.a = anon_{n}.a)', tags | {'anon:table'})


# ---- numeric constants in exponent notation
def exponent_const(draw):
    c = _pick(draw, ['1.5e3', '1e3', '2.5E2', '1.5e-1', '2e+1', '1.e2', '3E0'])
    form = draw(st.integers(0, 2))
    tags = {'const:exponent'}
    if form == 0:
        return _sel(f'SELECT {c}, x1.a AS c1 FROM t1 AS x1', tags)
    if form == 1:
        return _sel(f'SELECT (x1.a + {c}) AS c0, typeof({c}) AS c1 FROM t1 AS x1', tags)
    return _sel(f'SELECT x1.a AS c0, x1.b AS c1 FROM t1 AS x1 WHERE (x1.a < {c})', tags)


SHAPES = [plus_text, plus_text, bool_typed, bool_typed, captured_order, json_arrow, exists_alias, create_existing,
          cte_on_setop, offset_only, anon_names, exponent_const]


@st.composite
def shapes(draw):
    c = _pick(draw, SHAPES)(draw)
    c['data'] = draw(model.table_data(min_rows=1))
    return c


# ---- rank of operators: x OP1 y OP2 z without parentheses, every ordered pair (bounded-exhaustive)
# name -> text with {} for the right operand (None: none)
BINARY = [('||', '|| {}'), ('*', '* {}'), ('/', '/ {}'), ('%', '% {}'), ('+', '+ {}'), ('-', '- {}'),
          ('<', '< {}'), ('<=', '<= {}'), ('>', '> {}'), ('>=', '>= {}'), ('=', '= {}'), ('!=', '!= {}'), ('<>', '<> {}'),
          ('IS', 'IS {}'), ('IS NOT', 'IS NOT {}'), ('IS NULL', 'IS NULL'), ('IS NOT NULL', 'IS NOT NULL'),
          ('LIKE', 'LIKE {}'), ('NOT LIKE', 'NOT LIKE {}'), ('IN', 'IN (0, {})'), ('NOT IN', 'NOT IN (0, {})'),
          ('BETWEEN', 'BETWEEN 0 AND {}'), ('AND', 'AND {}'), ('OR', 'OR {}')]
PREFIX = [('NOT', 'NOT '), ('-', '- ')]
RANK_CLASS = {'||': 'concat', '*': 'mul', '/': 'mul', '%': 'mul', '+': 'add', '-': 'add', '<': 'cmp', '<=': 'cmp',
              '>': 'cmp', '>=': 'cmp', '=': 'eq', '!=': 'eq', '<>': 'eq', 'IS': 'is', 'IS NOT': 'is', 'IS NULL': 'is',
              'IS NOT NULL': 'is', 'LIKE': 'like', 'NOT LIKE': 'like', 'IN': 'in', 'NOT IN': 'in', 'BETWEEN': 'between',
              'AND': 'and', 'OR': 'or'}
# all pairs (a, b) over the int domain: the groupings of an expression differ on some row
RANK_DATA = {'t1': [[a, b, s] for a in model.INT_DOMAIN for b in model.INT_DOMAIN
                    for s in (['x'] if (a, b) != (None, None) else [None, 'y'])],
             't2': [], 't3': [], 't4': []}


def rank_cases():
    out = []
    for n1, t1 in BINARY:
        for n2, t2 in BINARY:
            for y, z in (('x1.b', '2'), ('1', 'x1.b')):
                e = f'x1.a {t1.format(y)} {t2.format(z)}'
                tags = {'rank', f'rank:{n1},{n2}', f'rank-class:{RANK_CLASS[n1]},{RANK_CLASS[n2]}'}
                k1, k2 = RANK_CLASS[n1], RANK_CLASS[n2]
                if 'concat' in (k1, k2):
                    tags.add('rank:has-concat')
                elif k1 == 'eq' and k2 in ('is', 'like', 'in', 'between'):
                    tags.add('rank:eq-then-predicate')
                elif k1 == k2 == 'cmp':
                    tags.add('rank:cmp-chain')
                elif k1 == 'between' and k2 in ('is', 'like', 'in', 'between'):
                    tags.add('rank:between-then-predicate')
                out.append(_sel(f'SELECT x1.a AS c0, x1.b AS c1, {e} AS c2 FROM t1 AS x1', tags))
    for n0, t0 in PREFIX:
        for n2, t2 in BINARY:
            for x, z in (('x1.a', 'x1.b'), ('x1.b', '2')):
                e = f'{t0}{x} {t2.format(z)}'
                tags = {'rank', f'rank:prefix {n0},{n2}', f'rank-class:prefix {n0},{RANK_CLASS[n2]}'}
                if RANK_CLASS[n2] == 'concat':
                    tags.add('rank:has-concat')
                out.append(_sel(f'SELECT x1.a AS c0, x1.b AS c1, {e} AS c2 FROM t1 AS x1', tags))
    for c in out:
        c['data'] = RANK_DATA
        c['target'] = 'sqlite'
    return out
