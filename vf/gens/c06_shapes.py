"""Statement shapes for C06 that the shared typed model (vf/gens/model.py) does not produce.

Every shape is written for SQLite (the reference engine) over the schema of the model (t1(a, b, s), t2(a, c), t3(a, d),
t4(a, e)); compound operands are parenthesised except in the operator-rank list, whose subject is exactly the missing
parentheses.  Each shape carries a feature tag that names the mechanism it is after.
"""
from hypothesis import strategies as st

from vf.gens import model


def _pick(draw, seq):
    seq = list(seq)
    return seq[draw(st.integers(0, len(seq) - 1))] if len(seq) > 1 else seq[0]


def _sel(sql, tags, order_cols=(), total_order=False, **extra):
    c = {'sql': sql, 'kind': 'select',
         'meta': {'order_cols': list(order_cols), 'total_order': total_order, 'limit': False, 'tags': sorted(tags)}}
    c.update(extra)
    return c


def _dml(sql, tags, new_tables=(), **extra):
    c = {'sql': sql, 'kind': 'dml', 'meta': {'tags': sorted(tags)}, 'new_tables': list(new_tables)}
    c.update(extra)
    return c


# ---- "+" next to an operand that SQLAlchemy types as a string
INT_OPERANDS = ['{q}a', '{q}b', '1', '2', '({q}a * 2)', '({q}a - {q}b)']
TEXT_TYPED = ["'5'", "'0'", "'1'", 'CAST({q}a AS TEXT)', 'CAST({q}b AS CHAR)', 'CAST({q}a AS VARCHAR)',
              "(CASE WHEN ({q}a > 1) THEN '1' ELSE '2' END)", "coalesce('3', {q}s)", "(SELECT '7')", "({q}s || '1')",
              "max('3', {q}s)"]


def plus_text(draw):
    ctx = _pick(draw, ['target', 'where', 'nested', 'update', 'delete', 'insert'])
    q = 'x1.' if ctx in ('target', 'where', 'nested') else ''
    form = draw(st.integers(0, 2))
    i, t, t2 = _pick(draw, INT_OPERANDS), _pick(draw, TEXT_TYPED), _pick(draw, TEXT_TYPED)
    l, r = [(i, t), (t, i), (t, t2)][form]
    e = f'({l} + {r})'.format(q=q)
    tags = {'op:plus-text-operand', 'plus-text:' + ctx}
    if ctx == 'target':
        return _sel(f'SELECT {e} AS c0, x1.a AS c1, x1.b AS c2 FROM t1 AS x1', tags)
    if ctx == 'where':
        return _sel(f'SELECT x1.a AS c0, x1.b AS c1, x1.s AS c2 FROM t1 AS x1 WHERE ({e} > 1)', tags)
    if ctx == 'nested':
        return _sel(f'SELECT ({e} * 2) AS c0, (1 - {e}) AS c1, ({e} || \'z\') AS c2 FROM t1 AS x1', tags)
    if ctx == 'update':
        where = _pick(draw, ['', ' WHERE (a > 0)', f' WHERE ({e} > 2)'])
        return _dml(f'UPDATE t1 SET b = {e}{where}', tags | {'dml:update'})
    if ctx == 'delete':
        return _dml(f'DELETE FROM t1 WHERE ({e} = {_pick(draw, [1, 2, 3, 6])})', tags | {'dml:delete'})
    return _dml(f'INSERT INTO t2 (a, c) SELECT a, {e} FROM t1', tags | {'dml:insert'})


# ---- an operand of AND / OR / NOT / ON / HAVING that SQLAlchemy types as a boolean
BOOL_TYPED = ['CAST({q}a AS BOOLEAN)', 'CAST({q}b AS BOOL)', 'CAST(({q}a - 1) AS BOOLEAN)',
              '(CASE WHEN ({q}a IS NULL) THEN TRUE ELSE {q}b END)', '(CASE WHEN ({q}a > 5) THEN FALSE ELSE {q}a END)',
              'max(({q}a > 5), {q}b)', 'min(({q}a < 5), {q}b)', 'coalesce(({q}a > 5), {q}b)']
BOOL_TYPED_GROUPED = ['CAST(x1.a AS BOOLEAN)', 'CAST(max(x1.b) AS BOOLEAN)',
                      '(CASE WHEN (count(*) > 5) THEN TRUE ELSE x1.a END)', 'coalesce((x1.a > 5), max(x1.b))']


def bool_typed(draw):
    ctx = _pick(draw, ['and', 'or', 'not', 'on', 'having', 'target', 'delete', 'update'])
    q = '' if ctx in ('delete', 'update') else 'x1.'
    b = _pick(draw, BOOL_TYPED).format(q=q)
    p = _pick(draw, ['({q}b IS NOT NULL)', "({q}s = 'x')", '({q}a >= {q}b)']).format(q=q)
    tags = {'bool-typed-operand', 'bool-typed:' + ctx}
    if ctx in ('and', 'or'):
        cond = f'({b} {ctx.upper()} {p})' if draw(st.booleans()) else f'({p} {ctx.upper()} {b})'
        return _sel(f'SELECT x1.a AS c0, x1.b AS c1, x1.s AS c2 FROM t1 AS x1 WHERE {cond}', tags)
    if ctx == 'not':
        cond = _pick(draw, [f'(NOT {b})', f'((NOT {b}) AND {p})', f'(NOT ({b} AND {p}))'])
        return _sel(f'SELECT x1.a AS c0, x1.b AS c1, x1.s AS c2 FROM t1 AS x1 WHERE {cond}', tags)
    if ctx == 'on':
        kind = _pick(draw, ['JOIN', 'LEFT JOIN', 'INNER JOIN'])
        cond = _pick(draw, [b, f'({b} AND (x1.a = x2.a))'])
        return _sel(f'SELECT x1.a AS c0, x1.b AS c1, x2.c AS c2 FROM t1 AS x1 {kind} t2 AS x2 ON {cond}', tags)
    if ctx == 'having':
        h = _pick(draw, BOOL_TYPED_GROUPED)
        h = _pick(draw, [h, f'({h} AND (count(*) > 0))'])
        return _sel(f'SELECT x1.a AS c0, count(*) AS c1 FROM t1 AS x1 GROUP BY x1.a HAVING {h}', tags | {'group', 'having'})
    if ctx == 'target':
        return _sel(f'SELECT x1.a AS c0, x1.b AS c1, ({b} AND 1) AS c2, ({p} OR {b}) AS c3, (NOT {b}) AS c4 '
                    f'FROM t1 AS x1', tags)
    if ctx == 'delete':
        return _dml(f'DELETE FROM t1 WHERE ({b} AND {p})', tags | {'dml:delete'})
    return _dml(f'UPDATE t1 SET s = \'w\' WHERE ({b} OR {p})', tags | {'dml:update'})


# ---- result columns without alias, which the renderer labels itself (constant -> its text, CAST(col) -> col),
#      and an ORDER BY that names a table column spelled like that label
def captured_order(draw):
    form = _pick(draw, ['const', 'cast', 'func'])
    tags = {'order', 'order:names-column-spelled-like-added-label', 'added-label:' + form}
    if form == 'func':
        # a function call without alias is labelled with the name of the function: length(..) AS length
        fn, arg = _pick(draw, [('length', 's1.s'), ('abs', 's1.b'), ('coalesce', 's1.b, 0'), ('upper', 's1.s')])
        src = _pick(draw, ['a', 'b'])
        d = _pick(draw, ['', ' DESC'])
        return _sel(f"SELECT {fn}({arg}), s1.b AS c1, s1.s AS c2, s1.{fn} AS c3 "
                    f"FROM (SELECT x1.{src} AS {fn}, x1.b AS b, x1.s AS s FROM t1 AS x1) AS s1 "
                    f"ORDER BY {fn}{d}, c1, c2", tags | {'sub:from'}, order_cols=[3, 1, 2], total_order=True)
    if form == 'const':
        col = _pick(draw, ['a', 'b', 's'])
        other = [c for c in ['a', 'b', 's'] if c != col]
        d = _pick(draw, ['', ' DESC'])
        # rows = (constant, other columns..., the ordering column): the keys determine the row
        return _sel(f"SELECT '{col}', x1.{other[0]} AS c1, x1.{other[1]} AS c2, x1.{col} AS c3 FROM t1 AS x1 "
                    f"ORDER BY {col}{d}, c1, c2", tags, order_cols=[3, 1, 2], total_order=True)
    col, typ = _pick(draw, [('s', 'INT'), ('s', 'FLOAT'), ('s', 'INTEGER'), ('a', 'TEXT')])
    other = [c for c in ['a', 'b', 's'] if c != col]
    d = _pick(draw, ['', ' DESC'])
    return _sel(f"SELECT CAST({col} AS {typ}), {other[0]} AS c1, {other[1]} AS c2, {col} AS c3 FROM t1 "
                f"ORDER BY {col}{d}, c1, c2", tags, order_cols=[3, 1, 2], total_order=True)


# ---- operators the renderer prints through op(): '->' (SQLite >= 3.38 reads it)
ARROW_LEFT = ['(x1.a + 1)', '(x1.a * 2)', '(x1.a - x1.b)', '(x1.a = 1)', '(x1.a < x1.b)', '(- x1.a)',
              '(x1.a BETWEEN 0 AND 1)', '(x1.a IS NULL)', '(x1.a OR x1.b)', '(NOT x1.a)', '(x1.a % 2)', '(x1.a / 2)',
              "(x1.a || '1')"]


def json_arrow(draw):
    l, l2 = _pick(draw, ARROW_LEFT), _pick(draw, ARROW_LEFT)
    tags = {'op:json-arrow'}
    form = draw(st.integers(0, 2))
    if form == 0:
        return _sel(f"SELECT x1.a AS c0, x1.b AS c1, ({l} -> '$') AS c2, typeof(({l2} -> '$')) AS c3 FROM t1 AS x1", tags)
    if form == 1:
        return _sel(f"SELECT x1.a AS c0, x1.b AS c1, (1 + ({l} -> '$')) AS c2, (({l2} -> '$') || 'z') AS c3 "
                    f"FROM t1 AS x1", tags)
    return _sel(f"SELECT x1.a AS c0, x1.b AS c1 FROM t1 AS x1 WHERE (({l} -> '$') = '1')", tags)


# ---- alias of an EXISTS / NOT EXISTS result column, used from outside
def exists_alias(draw):
    neg = _pick(draw, ['', 'NOT '])
    sub = _pick(draw, ['SELECT 1 FROM t2 AS y1 WHERE (y1.a = x1.a)', 'SELECT y1.c FROM t2 AS y1 WHERE (y1.c > x1.b)'])
    e = f'{neg}EXISTS ({sub})'
    tags = {'alias:exists'}
    form = draw(st.integers(0, 2))
    if form == 0:
        return _sel(f'SELECT s1.c0 AS c0, s1.c1 AS c1 FROM (SELECT {e} AS c0, x1.a AS c1 FROM t1 AS x1) AS s1',
                    tags | {'sub:from'})
    if form == 1:
        return _sel(f'SELECT {e} AS c0, x1.a AS c1, x1.b AS c2, x1.s AS c3 FROM t1 AS x1 ORDER BY c0 DESC, c1, c2, c3',
                    tags | {'order'}, order_cols=[0, 1, 2, 3], total_order=True)
    return _sel(f'WITH w1 AS (SELECT {e} AS c0, x1.a AS c1 FROM t1 AS x1) SELECT w1.c1 AS c0 FROM w1 WHERE (w1.c0 = 1)',
                tags | {'cte'})


# ---- CREATE TABLE IF NOT EXISTS over a table that exists: a no-op
def create_existing(draw):
    t = _pick(draw, sorted(model.SCHEMA))
    first = model.SCHEMA[t][0][0]
    ty = _pick(draw, ['int', 'text', 'varchar(10)'])
    return _dml([f'CREATE TABLE IF NOT EXISTS {t} (k0 {ty})', f'INSERT INTO {t} ({first}) VALUES (7)'],
                {'dml:create', 'dml:create-if-not-exists:table-exists'})


# ---- WITH in front of a parenthesised set operation.  SQLite does not read the parentheses; in SQL the WITH clause
#      belongs to the whole query expression either way, so the text without them is the same statement
def cte_on_setop(draw):
    name = _pick(draw, ['w1', 't3', 't2'])            # a fresh name, or one that hides a real table
    body = _pick(draw, ['SELECT 7 AS a', 'SELECT x1.b AS a FROM t1 AS x1', 'SELECT x1.a AS a FROM t1 AS x1 WHERE (x1.a > 1)'])
    op = _pick(draw, ['UNION', 'UNION ALL', 'EXCEPT', 'INTERSECT'])
    left = f'SELECT y1.a AS c0 FROM {name} AS y1'
    right = _pick(draw, [f'SELECT y2.a AS c0 FROM {name} AS y2 WHERE (y2.a > 0)', 'SELECT y2.a AS c0 FROM t4 AS y2'])
    if draw(st.booleans()):
        left, right = right.replace('y2', 'y1'), left.replace('y1', 'y2')
    w = f'WITH {name} AS ({body})'
    tags = {'cte', 'setop:' + op, 'cte:on-parenthesised-setop'}
    if draw(st.integers(0, 2)) == 0:
        tags |= {'sub:from'}
        return _sel(f'SELECT s1.c0 AS c0 FROM ({w} {left} {op} {right}) AS s1', tags,
                    sql_parsed=f'SELECT s1.c0 AS c0 FROM ({w} ({left} {op} {right})) AS s1')
    return _sel(f'{w} {left} {op} {right}', tags, sql_parsed=f'{w} ({left} {op} {right})')


# ---- OFFSET without LIMIT (SQLite spells it LIMIT -1 OFFSET n)
def offset_only(draw):
    n = _pick(draw, [0, 1, 2, 3])
    d = _pick(draw, ['', ' DESC'])
    head = f'SELECT x1.a AS c0, x1.b AS c1, x1.s AS c2 FROM t1 AS x1 ORDER BY c0{d}, c1, c2'
    return _sel(f'{head} LIMIT -1 OFFSET {n}', {'order', 'offset:without-limit'}, order_cols=[0, 1, 2], total_order=True,
                sql_parsed=f'{head} OFFSET {n}')


# ---- names of the form anon_N in the statement, next to something the renderer names itself
def anon_names(draw):
    n = _pick(draw, [1, 1, 2])
    tags = {'name:anon_N-in-statement'}
    if draw(st.booleans()):
        pad = '(x1.b * 2), ' if n == 2 else ''
        return _sel(f'SELECT * FROM (SELECT {pad}(x1.a + 1), x1.a AS anon_{n} FROM t1 AS x1) AS s1 '
                    f'WHERE (s1.anon_{n} >= 1)', tags | {'anon:column'})
    pad = '(SELECT x0.a FROM t4 AS x0) JOIN ' if n == 2 else ''
    on0 = ' ON (1 = 1)' if n == 2 else ''
    return _sel(f'SELECT anon_{n}.a AS c0 FROM {pad}(SELECT x1.a FROM t1 AS x1 WHERE (x1.a >= 1)){on0} '
                f'JOIN (SELECT x2.d AS a FROM t3 AS x2) AS anon_{n} ON (anon_{n}.a = anon_{n}.a)', tags | {'anon:table'})


# ---- numeric constants in exponent notation
def exponent_const(draw):
    c = _pick(draw, ['1.5e3', '1e3', '2.5E2', '1.5e-1', '2e+1', '1.e2', '3E0'])
    form = draw(st.integers(0, 2))
    tags = {'const:exponent'}
    if form == 0:
        return _sel(f'SELECT {c}, x1.a AS c1 FROM t1 AS x1', tags)
    if form == 1:
        return _sel(f'SELECT (x1.a + {c}) AS c0, typeof({c}) AS c1 FROM t1 AS x1', tags)
    return _sel(f'SELECT x1.a AS c0, x1.b AS c1 FROM t1 AS x1 WHERE (x1.a < {c})', tags)


# ---- WITH inside a sub-query (IN / EXISTS / scalar / derived table / join operand / DML condition); the CTE is called
#      like a table that is read outside the sub-query, or has a name of its own.  A renderer that prints the WITH clause
#      anywhere else than in front of its own sub-query changes what the outer query reads
CTE_BODIES = {'t1': ['SELECT y0.a AS a FROM {o} AS y0', 'SELECT y0.a AS a FROM {o} AS y0 WHERE (y0.a > 1)', 'SELECT 7 AS a'],
              }
CTE_SUB_PLACES = ['in', 'not-in', 'exists', 'scalar-target', 'scalar-where', 'derived', 'derived-first', 'join-operand',
                  'delete', 'insert-select', 'nested-sub']


def _cte_parts(draw, outer):
    """(name, WITH text, tags): a CTE with column a, called like the outer table (or a fresh name), that reads another table"""
    other = _pick(draw, [t for t in sorted(model.SCHEMA) if t != outer])
    name = _pick(draw, [outer, outer, 'w1'])
    body = _pick(draw, CTE_BODIES['t1']).format(o=other)
    tags = {'cte', 'cte:in-subquery', 'cte:name-shadows-outer-table' if name == outer else 'cte:name-fresh'}
    return name, f'WITH {name} AS ({body})', tags


def cte_in_subquery(draw):
    outer = _pick(draw, sorted(model.SCHEMA))
    second = model.SCHEMA[outer][1][0]
    name, w, tags = _cte_parts(draw, outer)
    place = _pick(draw, CTE_SUB_PLACES)
    tags |= {'cte-sub:' + place}
    out = f'SELECT x1.a AS c0, x1.{second} AS c1 FROM {outer} AS x1'
    if place in ('in', 'not-in'):
        neg = 'NOT ' if place == 'not-in' else ''
        return _sel(f'{out} WHERE (x1.a {neg}IN ({w} SELECT y1.a FROM {name} AS y1 WHERE (y1.a IS NOT NULL)))', tags | {'sub:where'})
    if place == 'exists':
        neg = _pick(draw, ['', 'NOT '])
        return _sel(f'{out} WHERE {neg}EXISTS ({w} SELECT 1 FROM {name} AS y1 WHERE (y1.a = x1.a))', tags | {'sub:where'})
    if place == 'scalar-target':
        return _sel(f'SELECT x1.a AS c0, ({w} SELECT max(y1.a) FROM {name} AS y1) AS c1, '
                    f'(SELECT count(*) FROM {outer} AS y2) AS c2 FROM {outer} AS x1', tags | {'sub:target'})
    if place == 'scalar-where':
        return _sel(f'{out} WHERE (x1.a < ({w} SELECT max(y1.a) FROM {name} AS y1))', tags | {'sub:where'})
    if place == 'derived':
        kind = _pick(draw, ['JOIN', 'LEFT JOIN'])
        return _sel(f'SELECT x1.a AS c0, s1.a AS c1 FROM {outer} AS x1 {kind} ({w} SELECT y1.a AS a FROM {name} AS y1) AS s1 '
                    f'ON (s1.a = x1.a)', tags | {'sub:from'})
    if place == 'derived-first':
        kind = _pick(draw, ['JOIN', 'LEFT JOIN'])
        return _sel(f'SELECT x1.a AS c0, s1.a AS c1 FROM ({w} SELECT y1.a AS a FROM {name} AS y1) AS s1 {kind} {outer} AS x1 '
                    f'ON (s1.a = x1.a)', tags | {'sub:from'})
    if place == 'join-operand':
        # the table is read without alias outside, twice
        return _sel(f'SELECT {outer}.a AS c0, s1.a AS c1, (SELECT count(*) FROM {outer}) AS c2 FROM {outer} '
                    f'JOIN ({w} SELECT a FROM {name}) AS s1 ON (s1.a >= {outer}.a)', tags | {'sub:from'})
    if place == 'delete':
        neg = _pick(draw, ['', 'NOT '])
        return _dml(f'DELETE FROM {outer} WHERE (a {neg}IN ({w} SELECT y1.a FROM {name} AS y1 WHERE (y1.a IS NOT NULL)))',
                    tags | {'dml:delete'})
    if place == 'insert-select':
        return _dml(f'INSERT INTO {outer} (a, {second}) SELECT x1.a, 5 FROM {outer} AS x1 '
                    f'WHERE (x1.a IN ({w} SELECT y1.a FROM {name} AS y1))', tags | {'dml:insert'})
    # a sub-query in a sub-query: the WITH clause two levels down
    return _sel(f'{out} WHERE (x1.a IN (SELECT y2.a FROM {outer} AS y2 WHERE (y2.a IN ({w} SELECT y1.a FROM {name} AS y1))))',
                tags | {'sub:where'})


# ---- a table read without alias by the outer query and again, next to another table, by a sub-query: the inner
#      reference hides the outer one (the sub-query is not correlated); a renderer that uses one table object for both
#      lets SQLAlchemy correlate the sub-query (the table disappears from its FROM)
def unaliased_table_repeated(draw):
    t = _pick(draw, sorted(model.SCHEMA))
    o = _pick(draw, [x for x in sorted(model.SCHEMA) if x != t])
    c2 = model.SCHEMA[t][1][0]
    inner_from = _pick(draw, [f'{o}, {t}', f'{t}, {o}', f'{o} JOIN {t} ON ({o}.a = {t}.a)', f'{o} LEFT JOIN {t} ON ({o}.a = {t}.a)',
                              f'{o}, {t}, t1 AS z1'])
    cond = '' if 'JOIN' in inner_from else f' WHERE ({o}.a = {t}.a)'
    place = _pick(draw, ['exists', 'not-exists', 'in', 'scalar-target', 'scalar-where', 'derived', 'delete'])
    tags = {'table:unaliased-repeated-in-subquery', 'table-repeated:' + place}
    outer = _pick(draw, [f'{t}', f'{t}', f'{t} JOIN t1 AS x9 ON (x9.a = {t}.a)'])
    head = f'SELECT {t}.a AS c0, {t}.{c2} AS c1 FROM {outer}'
    if place in ('exists', 'not-exists'):
        neg = 'NOT ' if place == 'not-exists' else ''
        return _sel(f'{head} WHERE {neg}EXISTS (SELECT 1 FROM {inner_from}{cond})', tags | {'sub:where'})
    if place == 'in':
        return _sel(f'{head} WHERE ({t}.a IN (SELECT {o}.a FROM {inner_from}{cond}))', tags | {'sub:where'})
    if place == 'scalar-target':
        return _sel(f'SELECT {t}.a AS c0, (SELECT count(*) FROM {inner_from}{cond}) AS c1 FROM {outer}', tags | {'sub:target'})
    if place == 'scalar-where':
        return _sel(f'{head} WHERE ({t}.a < (SELECT count(*) FROM {inner_from}{cond}))', tags | {'sub:where'})
    if place == 'derived':
        return _sel(f'SELECT {t}.a AS c0, s1.n AS c1 FROM {t} JOIN (SELECT count({t}.a) AS n FROM {inner_from}{cond}) AS s1 '
                    f'ON (s1.n >= {t}.a)', tags | {'sub:from'})
    return _dml(f'DELETE FROM {t} WHERE EXISTS (SELECT 1 FROM {inner_from}{cond})', tags | {'dml:delete'})


# ---- operands of set operations: chains, parenthesised operands, operands with a WITH clause of their own, result
#      columns of the first operand written without alias.  SQLite reads no parenthesised operand: the ground truth is the
#      same statement with every parenthesised operand P written as SELECT * FROM (P)
SETOPS = ['UNION', 'UNION ALL', 'INTERSECT', 'EXCEPT']
COLUMN_STYLES = ['aliased', 'qualified', 'qualified-by-table', 'bare', 'expr', 'const', 'func', 'quoted']


def _leaf(draw, k, ncols, style, src=None):
    """one SELECT with ncols int columns over table src (default: drawn)"""
    t = src or _pick(draw, sorted(model.SCHEMA))
    c2 = model.SCHEMA[t][1][0]
    al = f'x{k}'
    names = ['a', c2][:ncols]
    if style == 'aliased':
        cols, frm = [f'{al}.{n} AS c{i}' for i, n in enumerate(names)], f'{t} AS {al}'
    elif style == 'qualified':
        cols, frm = [f'{al}.{n}' for n in names], f'{t} AS {al}'
    elif style == 'qualified-by-table':
        cols, frm = [f'{t}.{n}' for n in names], t
    elif style == 'bare':
        cols, frm = list(names), t
    elif style == 'quoted':
        cols, frm = [f'`{n}`' for n in names], t
    elif style == 'expr':
        cols, frm = [f'({n} + 1)' for n in names], t
    elif style == 'const':
        cols, frm = [str(7 + i) for i, _ in enumerate(names)], t
    else:
        cols, frm = [f'abs({n})' for n in names], t
    where = _pick(draw, ['', '', f' WHERE ({"" if style not in ("aliased", "qualified") else al + "."}a > 1)'])
    return f'SELECT {", ".join(cols)} FROM {frm}{where}', t


def _first_col_tag(style):
    # how the first result column of an operand that is itself a set operation is written: the engine calls the column
    #  of `SELECT x1.a ...` a, whatever qualifier is written
    return 'setop:nested-operand-first-column:' + ('qualified' if style.startswith('qualified') else style)


def setop_operands(draw):
    form = _pick(draw, ['flat', 'left-paren', 'right-paren', 'both-paren', 'with-select-right', 'with-select-left',
                        'with-setop-right', 'with-setop-left', 'with-front-flat', 'with-front-paren'])
    ncols = 1 if form.startswith('with') else _pick(draw, [1, 1, 2])
    op1, op2, op3 = _pick(draw, SETOPS), _pick(draw, SETOPS), _pick(draw, SETOPS)
    tags = {'setop:' + op1, 'setop-operand', 'setop-form:' + form}

    def wrap(p):          # (text given to the parser, text SQLite reads)
        return f'({p})', f'SELECT * FROM ({p})'

    if not form.startswith('with'):
        sa, sb, sc, sd = [_pick(draw, COLUMN_STYLES) for _ in range(4)]
        A, _ = _leaf(draw, 1, ncols, sa)
        B, _ = _leaf(draw, 2, ncols, sb)
        C, _ = _leaf(draw, 3, ncols, sc)
        tags |= {'setop:chain', 'setop:' + op2}
        if form == 'flat':
            return _sel(f'{A} {op1} {B} {op2} {C}', tags | {_first_col_tag(sa)})
        tags.add('setop:parenthesised-operand')
        if form == 'left-paren':
            p, q = wrap(f'{A} {op1} {B}')
            return _sel(f'{q} {op2} {C}', tags | {_first_col_tag(sa)}, sql_parsed=f'{p} {op2} {C}')
        if form == 'right-paren':
            p, q = wrap(f'{B} {op1} {C}')
            return _sel(f'{A} {op2} {q}', tags | {_first_col_tag(sb)}, sql_parsed=f'{A} {op2} {p}')
        D, _ = _leaf(draw, 4, ncols, sd)
        p1, q1 = wrap(f'{A} {op1} {B}')
        p2, q2 = wrap(f'{C} {op3} {D}')
        return _sel(f'{q1} {op2} {q2}', tags | {'setop:' + op3, _first_col_tag(sa), _first_col_tag(sc)},
                    sql_parsed=f'{p1} {op2} {p2}')

    # forms with a WITH clause: the other operand(s) read table `outer`; the CTE is called like it, or w1
    outer = _pick(draw, sorted(model.SCHEMA))
    name, w, ctags = _cte_parts(draw, outer)
    tags |= (ctags - {'cte:in-subquery'}) | {'cte:in-setop'}
    O1, _ = _leaf(draw, 1, 1, _pick(draw, ['aliased', 'bare', 'qualified', 'qualified-by-table']), src=outer)   # reads the real table
    sn = _pick(draw, ['aliased', 'bare', 'qualified'])
    N1 = {'aliased': f'SELECT y1.a AS c0 FROM {name} AS y1', 'bare': f'SELECT a FROM {name}',
          'qualified': f'SELECT y1.a FROM {name} AS y1'}[sn]                       # reads the CTE
    N2 = _pick(draw, [f'SELECT y2.a FROM {name} AS y2 WHERE (y2.a > 2)', _leaf(draw, 5, 1, 'bare', src=outer)[0]])
    if form in ('with-select-right', 'with-select-left'):
        tags |= {'setop:parenthesised-operand', 'cte:own-of-parenthesised-operand'}
        p, q = wrap(f'{w} {N1}')
        if form == 'with-select-right':
            return _sel(f'{O1} {op1} {q}', tags, sql_parsed=f'{O1} {op1} {p}')
        return _sel(f'{q} {op1} {O1}', tags, sql_parsed=f'{p} {op1} {O1}')
    if form in ('with-setop-right', 'with-setop-left'):
        tags |= {'setop:parenthesised-operand', 'cte:own-of-parenthesised-operand', 'setop:chain', 'setop:' + op2,
                 _first_col_tag(sn)}
        p, q = wrap(f'{w} {N1} {op2} {N2}')
        if form == 'with-setop-right':
            return _sel(f'{O1} {op1} {q}', tags, sql_parsed=f'{O1} {op1} {p}')
        return _sel(f'{q} {op1} {O1}', tags, sql_parsed=f'{p} {op1} {O1}')
    tags |= {'setop:chain', 'setop:' + op2, 'cte:in-front-of-chain', _first_col_tag(sn)}
    if form == 'with-front-flat':
        return _sel(f'{w} {N1} {op1} {O1} {op2} {N2}', tags)
    tags.add('setop:parenthesised-operand')
    p, q = wrap(f'{N1} {op1} {O1}')
    return _sel(f'{w} {q} {op2} {N2}', tags, sql_parsed=f'{w} {p} {op2} {N2}')


SHAPES = [plus_text, plus_text, bool_typed, bool_typed, captured_order, json_arrow, exists_alias, create_existing,
          cte_on_setop, offset_only, anon_names, exponent_const, cte_in_subquery, cte_in_subquery, setop_operands,
          setop_operands, unaliased_table_repeated]


@st.composite
def shapes(draw):
    c = _pick(draw, SHAPES)(draw)
    c['data'] = draw(model.table_data(min_rows=1))
    return c


# ---- one renderer object used for several statements: `history` = the statements rendered before the judged one by
#      the same SqlalchemyRender object (with the default fallback, the way an application calls get_string).  What the
#      renderer printed, refused or left half-done for an earlier statement must not change the later rendering
REFUSED_PARTS = {
    # places of a select the renderer refuses (NotImplementedError / an SQLAlchemy error)
    'right-join': 'SELECT {q}.a FROM t1 AS {q} RIGHT JOIN t2 AS z9 ON ({q}.a = z9.a)',
    'cast-unknown-type': 'SELECT CAST({q}.a AS foo) FROM t1 AS {q}',
    'in-single-value': 'SELECT {q}.a FROM t1 AS {q} WHERE ({q}.a IN (1))',
    'function-from-argument': 'SELECT count({q}.a FROM 2) FROM t1 AS {q}',
    'next-value': 'SELECT next_value({q}.a) FROM t1 AS {q}',
    'refused-in-subquery': 'SELECT {q}.a FROM t1 AS {q} WHERE ({q}.a IN (SELECT z8.a FROM t2 AS z8 RIGHT JOIN t3 AS z9 ON (z8.a = z9.a)))',
    'refused-in-cte': 'WITH w9 AS (SELECT CAST(z9.a AS foo) AS a FROM t2 AS z9) SELECT {q}.a FROM w9 AS {q}',
}
REFUSED_STATEMENTS = ['INSERT INTO t1 VALUES (1, 2, \'x\')', 'SELECT * FROM t1 UNION SELECT a, c FROM t2',
                      'UPDATE t1 SET a = 1 FROM (SELECT a FROM t2) AS s1 WHERE t1.a = s1.a',
                      'CREATE TABLE n9 (k0 foo)', 'SELECT a FROM t1 AS x1.y1']
RENDERED_STATEMENTS = ['SELECT a FROM t1 UNION SELECT a FROM t2 UNION ALL SELECT a FROM t3',
                       '(SELECT a FROM t1 UNION SELECT a FROM t2) EXCEPT SELECT a FROM t3',
                       'WITH w1 AS (SELECT a FROM t2) SELECT a FROM w1 UNION SELECT a FROM t1 UNION SELECT a FROM w1',
                       'WITH t1 AS (SELECT a FROM t2) SELECT a FROM t1', 'SELECT a FROM (SELECT a FROM t1)',
                       "SELECT CAST(a AS BOOL), 'x', 1.5, b + '1' FROM t1 ORDER BY a DESC NULLS LAST LIMIT 2 OFFSET 1",
                       'SELECT a, rank() OVER (ORDER BY a DESC NULLS FIRST) FROM t1', 'SELECT a FROM t1 ORDER BY a OFFSET 2',
                       "INSERT INTO t1 (a, b, s) VALUES (1, 2, 'x')", 'UPDATE t1 SET `a` = 1 WHERE b IS NULL',
                       'DELETE FROM t1 WHERE a = 1', 'CREATE TABLE IF NOT EXISTS n9 (k0 int PRIMARY KEY, k1 varchar(10))',
                       'DROP TABLE IF EXISTS n9', 'SELECT a FROM t1 FOR UPDATE', 'SELECT DISTINCT a FROM t1 LEFT JOIN t2 ON t1.a = t2.a']


def _history_item(draw):
    """(statement, tags): a statement rendered earlier by the same renderer object"""
    kind = _pick(draw, ['refused-operand-in-nested-setop', 'refused-operand-in-nested-setop', 'refused-operand-in-setop',
                        'refused-select', 'refused-statement', 'rendered'])
    if kind == 'rendered':
        return _pick(draw, RENDERED_STATEMENTS), {'reuse:history:rendered'}
    if kind == 'refused-statement':
        return _pick(draw, REFUSED_STATEMENTS), {'reuse:history:refused'}
    why = _pick(draw, sorted(REFUSED_PARTS))
    bad = REFUSED_PARTS[why].format(q='z1')
    tags = {'reuse:history:refused', 'reuse:history:refused:' + why}
    if kind == 'refused-select':
        return bad, tags
    ok = ['SELECT a FROM t2', 'SELECT x2.a FROM t3 AS x2 WHERE (x2.a > 1)', 'WITH w9 AS (SELECT a FROM t4) SELECT a FROM w9']
    op1, op2 = _pick(draw, SETOPS), _pick(draw, SETOPS)
    a, b = _pick(draw, ok[:2]), _pick(draw, ok[:2])
    if kind == 'refused-operand-in-setop':
        return _pick(draw, [f'{a} {op1} {bad}', f'{bad} {op1} {a}']), tags | {'reuse:history:refused-in-setop'}
    # a set operation that has a set operation as an operand, one operand of which is refused: the position of the
    #  refused operand decides what the renderer had begun when it gave up
    form = _pick(draw, ['(P) x R', '(R x P) x P', '(P x R) x P', 'P x (P x R)', 'P x (R x P)', 'R x (P x P)', 'P x P x R',
                        'R x P x P', 'W P x P x R', '(P x P) x (P x R)'])
    text, ops = '', [op1, op2, _pick(draw, SETOPS)]
    for ch in form:
        if ch == 'P':
            text += _pick(draw, [a, b])
        elif ch == 'R':
            text += bad
        elif ch == 'x':
            text += ops.pop(0)
        elif ch == 'W':
            text += 'WITH w8 AS (SELECT a FROM t4)'
        else:
            text += ch
    if form == '(P) x R':
        text = f'({a} {op2} {b}) {op1} {bad}'
    return text, tags | {'reuse:history:refused-in-setop', 'reuse:history:refused-in-nested-setop'}


def _retag(c, extra):
    c = dict(c)
    c['meta'] = dict(c['meta'], tags=sorted(set(c['meta']['tags']) | extra))
    return c


def reuse(draw, other_cases):
    """the judged statement: a statement whose rendering depends on where a name is bound (WITH inside a sub-query /
    operand), or any other case of the check (`other_cases`: strategy); before it, 1-3 history statements"""
    which = draw(st.integers(0, 5))
    if which <= 2:
        c = cte_in_subquery(draw)
        c['data'] = draw(model.table_data(min_rows=1))
    elif which == 3:
        c = _pick(draw, [setop_operands, setop_operands, unaliased_table_repeated])(draw)
        c['data'] = draw(model.table_data(min_rows=1))
    else:
        c = draw(other_cases)
    history, tags = [], {'reuse'}
    for _ in range(draw(st.integers(1, 3))):
        h, t = _history_item(draw)
        history.append(h)
        tags |= t
    if 'reuse:history:refused-in-nested-setop' in tags and {'cte:in-subquery', 'cte:name-shadows-outer-table'} <= set(c['meta']['tags']):
        tags.add('reuse:refused-nested-setop-then-scoped-cte')
    c = _retag(c, tags)
    c['history'] = history
    return c


# ---- sort direction x NULLS modifier, every combination at every place an ORDER BY key can stand (bounded-exhaustive)
DIRECTIONS = ['', ' ASC', ' DESC']
NULLS = ['', ' NULLS FIRST', ' NULLS LAST']
ORDER_DATA = [
    {'t1': [[2, 1, 'x'], [None, 2, 'y'], [1, None, None], [3, 0, 'x'], [None, None, 'y'], [1, 3, None], [0, 2, 'x']],
     't2': [[0, 1], [1, 1], [2, 2], [3, 0], [None, 1]], 't3': [], 't4': []},
    {'t1': [[a, b, s] for a in (None, 0, 1) for b in (None, 1, 2) for s in (None, 'x')],
     't2': [[None, 0], [1, 1], [2, 2]], 't3': [], 't4': []},
]
T1 = 'SELECT x1.a AS c0, x1.b AS c1, x1.s AS c2 FROM t1 AS x1'


def _order_places():
    """(place, text with {k} for direction + modifier of the key under test [{k2}: of another key], order_cols, total_order)"""
    return [
        ('alias', T1 + ' ORDER BY c0{k}', [0], False),
        ('source-column', T1 + ' ORDER BY x1.a{k}', [0], False),
        ('bare-column', 'SELECT a, b, s FROM t1 ORDER BY a{k}', [0], False),
        ('text-column', T1 + ' ORDER BY c2{k}', [2], False),
        ('expression', 'SELECT (x1.a + 1) AS c0, x1.b AS c1 FROM t1 AS x1 ORDER BY (x1.a + 1){k}', [0], False),
        ('ordinal', T1 + ' ORDER BY 1{k}', [0], False),
        ('first-of-three', T1 + ' ORDER BY c0{k}, c1, c2', [0, 1, 2], True),
        ('second-key', T1 + ' ORDER BY c2, c0{k}', [2, 0], False),
        ('last-of-three', T1 + ' ORDER BY c2 DESC, c1 NULLS LAST, c0{k}', [2, 1, 0], True),
        ('with-limit', T1 + ' ORDER BY c0{k}, c1, c2 LIMIT 3', [0, 1, 2], True),
        ('with-limit-offset', T1 + ' ORDER BY c0{k}, c1, c2 LIMIT 2 OFFSET 2', [0, 1, 2], True),
        ('distinct', 'SELECT DISTINCT x1.a AS c0 FROM t1 AS x1 ORDER BY c0{k}', [0], True),
        ('grouped-aggregate', 'SELECT x1.a AS c0, max(x1.b) AS c1 FROM t1 AS x1 GROUP BY x1.a ORDER BY c1{k}, c0', [1, 0], True),
        ('derived-table-limit', 'SELECT s1.c0 AS c0, s1.c1 AS c1, s1.c2 AS c2 FROM (' + T1 + ' ORDER BY c0{k}, c1, c2 LIMIT 3) AS s1', [], False),
        ('in-subquery-limit', 'SELECT y1.a AS c0, y1.c AS c1 FROM t2 AS y1 WHERE (y1.a IN (SELECT x1.b FROM t1 AS x1 ORDER BY x1.b{k}, x1.a LIMIT 2))', [], False),
        ('cte-limit', 'WITH w1 AS (' + T1 + ' ORDER BY c0{k}, c1, c2 LIMIT 4) SELECT w1.c0 AS c0, w1.c1 AS c1 FROM w1', [], False),
        ('window-rank', 'SELECT x1.a AS c0, x1.b AS c1, rank() OVER (ORDER BY x1.a{k}) AS c2 FROM t1 AS x1', [], False),
        ('window-dense-rank-text', 'SELECT x1.a AS c0, x1.s AS c1, dense_rank() OVER (ORDER BY x1.s{k}) AS c2 FROM t1 AS x1', [], False),
        ('window-partition', 'SELECT x1.a AS c0, x1.s AS c1, rank() OVER (PARTITION BY x1.s ORDER BY x1.a{k}) AS c2 FROM t1 AS x1', [], False),
        ('window-running-sum', 'SELECT x1.a AS c0, x1.b AS c1, sum(x1.b) OVER (ORDER BY x1.a{k}) AS c2 FROM t1 AS x1', [], False),
        ('window-second-key', 'SELECT x1.a AS c0, x1.s AS c1, rank() OVER (ORDER BY x1.s DESC, x1.a{k}) AS c2 FROM t1 AS x1', [], False),
        ('window-and-order', 'SELECT x1.a AS c0, x1.b AS c1, rank() OVER (ORDER BY x1.a{k}) AS c2 FROM t1 AS x1 ORDER BY c0{k}', [0], False),
        ('two-keys', T1 + ' ORDER BY c2{k2}, c0{k}', [2, 0], False),
        ('window-two-keys', 'SELECT x1.a AS c0, x1.s AS c1, rank() OVER (ORDER BY x1.s{k2}, x1.a{k}) AS c2 FROM t1 AS x1', [], False),
    ]


def order_matrix_cases():
    out = []
    combos = [d + n for d in DIRECTIONS for n in NULLS]
    for place, text, oc, total in _order_places():
        for d in DIRECTIONS:
            for n in NULLS:
                for k2 in (combos if '{k2}' in text else ['']):
                    tags = {'order', 'order-matrix', 'order-matrix:' + place,
                            'order-key:' + (d.strip() or 'no-direction') + '/' + (n.strip() or 'no-modifier')}
                    if n:
                        tags.add('window:nulls' if place.startswith('window') else 'order:nulls')
                    if place.startswith('window'):
                        tags.add('window')
                    sql = text.format(k=d + n, k2=k2)
                    for i, data in enumerate(ORDER_DATA):
                        for target in ('sqlite', 'mysql', 'postgresql'):
                            c = _sel(sql, tags, order_cols=oc, total_order=total)
                            c['data'], c['target'] = data, target
                            out.append(c)
    return out


# ---- rank of operators: x OP1 y OP2 z without parentheses, every ordered pair (bounded-exhaustive)
# name -> text with {} for the right operand (None: none)
BINARY = [('||', '|| {}'), ('*', '* {}'), ('/', '/ {}'), ('%', '% {}'), ('+', '+ {}'), ('-', '- {}'),
          ('<', '< {}'), ('<=', '<= {}'), ('>', '> {}'), ('>=', '>= {}'), ('=', '= {}'), ('!=', '!= {}'), ('<>', '<> {}'),
          ('IS', 'IS {}'), ('IS NOT', 'IS NOT {}'), ('IS NULL', 'IS NULL'), ('IS NOT NULL', 'IS NOT NULL'),
          ('LIKE', 'LIKE {}'), ('NOT LIKE', 'NOT LIKE {}'), ('IN', 'IN (0, {})'), ('NOT IN', 'NOT IN (0, {})'),
          ('BETWEEN', 'BETWEEN 0 AND {}'), ('AND', 'AND {}'), ('OR', 'OR {}')]
PREFIX = [('NOT', 'NOT '), ('-', '- ')]
RANK_CLASS = {'||': 'concat', '*': 'mul', '/': 'mul', '%': 'mul', '+': 'add', '-': 'add', '<': 'cmp', '<=': 'cmp',
              '>': 'cmp', '>=': 'cmp', '=': 'eq', '!=': 'eq', '<>': 'eq', 'IS': 'is', 'IS NOT': 'is', 'IS NULL': 'is',
              'IS NOT NULL': 'is', 'LIKE': 'like', 'NOT LIKE': 'like', 'IN': 'in', 'NOT IN': 'in', 'BETWEEN': 'between',
              'AND': 'and', 'OR': 'or'}
# all pairs (a, b) over the int domain: the groupings of an expression differ on some row
RANK_DATA = {'t1': [[a, b, s] for a in model.INT_DOMAIN for b in model.INT_DOMAIN
                    for s in (['x'] if (a, b) != (None, None) else [None, 'y'])],
             't2': [], 't3': [], 't4': []}


def rank_cases():
    out = []
    for n1, t1 in BINARY:
        for n2, t2 in BINARY:
            for y, z in (('x1.b', '2'), ('1', 'x1.b')):
                e = f'x1.a {t1.format(y)} {t2.format(z)}'
                tags = {'rank', f'rank:{n1},{n2}', f'rank-class:{RANK_CLASS[n1]},{RANK_CLASS[n2]}'}
                k1, k2 = RANK_CLASS[n1], RANK_CLASS[n2]
                if 'concat' in (k1, k2):
                    tags.add('rank:has-concat')
                elif k1 == 'eq' and k2 in ('is', 'like', 'in', 'between'):
                    tags.add('rank:eq-then-predicate')
                elif k1 == k2 == 'cmp':
                    tags.add('rank:cmp-chain')
                elif k1 == 'between' and k2 in ('is', 'like', 'in', 'between'):
                    tags.add('rank:between-then-predicate')
                out.append(_sel(f'SELECT x1.a AS c0, x1.b AS c1, {e} AS c2 FROM t1 AS x1', tags))
    for n0, t0 in PREFIX:
        for n2, t2 in BINARY:
            for x, z in (('x1.a', 'x1.b'), ('x1.b', '2')):
                e = f'{t0}{x} {t2.format(z)}'
                tags = {'rank', f'rank:prefix {n0},{n2}', f'rank-class:prefix {n0},{RANK_CLASS[n2]}'}
                if RANK_CLASS[n2] == 'concat':
                    tags.add('rank:has-concat')
                out.append(_sel(f'SELECT x1.a AS c0, x1.b AS c1, {e} AS c2 FROM t1 AS x1', tags))
    for c in out:
        c['data'] = RANK_DATA
        c['target'] = 'sqlite'
    return out
