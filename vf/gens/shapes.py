"""G-shapes: targeted generator of SELECT / set-operation / DML texts that forces into existence the node kinds and
positions random grammar derivations reach rarely: CASE with and without operand, function FROM-arguments
(`substring(a from 1)`), window functions with PARTITION BY / ORDER BY, CTE bodies, sub-selects in every clause
(select list, FROM, JOIN operand, ON, WHERE, IN, EXISTS, GROUP BY, HAVING, ORDER BY, VALUES, SET, CASE, function
argument), VALUES rows, tuples, casts, nested (left-deep) joins of every kind, implicit joins, parameters.

Pure text composition under Hypothesis draws; no tree classes of the library are used.  `profile` names the dialect
the text is meant for: constructs its grammar does not have are not generated (only to keep the share of rejected
texts low -- a wrong entry costs acceptance, never soundness).
"""
from hypothesis import strategies as st

COLS = ['a', 'b', 'c', 't1.a', 't2.b', 'x.c', 'int1.t1.a', '`a b`']
TABLES = ['t1', 't2', 'int1.t1', 'int2.t2', 'proj.m', 'int1.sch.t3']
ALIASES = ['x', 'y', 'z', 's']
CONSTS = ['1', '2', '0', "'x'", "'2020-01-01'", '1.5', 'null', 'true']
BINOPS = ['+', '-', '*', '/', '%', '=', '<>', '<', '>', '<=', '>=', 'and', 'or', 'like', 'not like', 'is', 'is not',
          '||', 'in', 'not in']
CMPOPS = ['=', '<>', '<', '>', '<=', '>=', 'like', 'is', 'is not']
FUNCS = ['f', 'max', 'min', 'sum', 'coalesce', 'concat', 'lower', 'json_extract']
TYPES = ['int', 'float', 'text', 'date']
JOINS = ['join', 'left join', 'right join', 'inner join', 'full join', 'cross join', 'left outer join',
         'full outer join', 'outer join']

# features a dialect's grammar does not have (read off Parser._grammar.Productions)
PROFILES = {
    'mindsdb': frozenset(),
    'mysql': frozenset(['intersect', 'setop-chain', 'setop-paren', 'case-arg', 'case-noelse', 'case-inner', 'exists',
                        'order-expr', 'typecast', 'func_for', 'interval', 'not like', 'frame', 'cte-setop',
                        'update-from', 'update-on', 'if-not-exists', 'from-setop', 'window-expr']),
    'sqlite': frozenset(['intersect', 'setop-chain', 'setop-paren', 'case', 'case-arg', 'case-noelse', 'case-inner',
                         'exists', 'order-expr', 'typecast', 'func_for', 'interval', 'not like', 'frame', 'cte-setop',
                         'update-from', 'update-on', 'if-not-exists', 'from-setop', 'func-inner', 'convert',
                         'outer-join', 'table-star', 'create', 'window-expr']),
}


def _i(draw, lo, hi):
    return draw(st.integers(lo, hi))


def _pick(draw, xs):
    return draw(st.sampled_from(xs))


@st.composite
def expr(draw, depth=2, pred=False, top=False, pf=frozenset()):
    """An expression text.  pred=True: an Operation (accepted as WHERE / HAVING); top=True: a select-list item."""
    if depth <= 0 and not pred:
        k = _i(draw, 0, 9)
        if k <= 4:
            return _pick(draw, COLS)
        if k <= 7:
            return _pick(draw, CONSTS)
        if k == 8:
            return '?'
        return '(' + _pick(draw, COLS) + ')'
    kinds = ['bin', 'bin', 'cmp', 'cmp', 'unary', 'between', 'in_tuple', 'in_select', 'isnull']
    if 'exists' not in pf:
        kinds += ['exists', 'exists']
    inner_fn = top or 'func-inner' not in pf
    if inner_fn:
        kinds += ['func', 'func_from']
    if not pred:
        kinds += ['leaf', 'leaf', 'cast', 'tuple', 'subselect', 'paren']
        if inner_fn:
            kinds += ['count_star', 'count_distinct']
            if 'func_for' not in pf:
                kinds += ['func_for']
        if 'case' not in pf and (top or 'case-inner' not in pf):
            kinds += ['case', 'case']
            if 'case-arg' not in pf:
                kinds += ['case_arg', 'case_arg']
        if 'typecast' not in pf:
            kinds += ['typecast']
        if 'interval' not in pf:
            kinds += ['interval']
        if top:
            kinds += ['window', 'window', 'window']
    if depth <= 0:
        kinds = ['cmp', 'isnull', 'in_tuple']
    k = _pick(draw, kinds)

    def sub(p=False):
        return draw(expr(depth - 1, p, False, pf))

    def leaf():
        return draw(expr(0, False, False, pf))
    if k == 'leaf':
        return leaf()
    if k == 'bin':
        op = _pick(draw, [o for o in BINOPS if o not in pf])
        if op in ('in', 'not in'):
            return f'{sub()} {op} ({leaf()}, {sub()})'
        return f'{sub()} {op} {sub()}'
    if k == 'cmp':
        return f'{sub()} {_pick(draw, CMPOPS)} {sub()}'
    if k == 'unary':
        return _pick(draw, ['- ', 'not ']) + sub()
    if k == 'between':
        return f'{leaf()} between {sub()} and {sub()}'
    if k == 'isnull':
        return f'{sub()} is ' + _pick(draw, ['null', 'not null'])
    if k == 'func':
        n = _i(draw, 0, 3)
        return _pick(draw, FUNCS) + '(' + ', '.join(sub() for _ in range(n)) + ')'
    if k == 'func_from':
        return _pick(draw, ['substring', 'extract', 'trim']) + f'({sub()} from {sub()})'
    if k == 'func_for':
        return f'substring({sub()} from {sub()} for {sub()})'
    if k == 'count_star':
        return 'count(*)'
    if k == 'count_distinct':
        return f'count(distinct {sub()}, {leaf()})' if _i(draw, 0, 2) == 0 else f'count(distinct {sub()})'
    if k == 'in_tuple':
        n = _i(draw, 1, 3)
        neg = _pick(draw, ['', 'not '])
        return f'{sub()} {neg}in (' + ', '.join(sub() for _ in range(n)) + ')'
    if k == 'in_select':
        neg = _pick(draw, ['', 'not '])
        return f'{sub()} {neg}in ({draw(select(depth - 1, False, pf))})'
    if k == 'exists':
        return _pick(draw, ['exists', 'not exists']) + f' ({draw(select(depth - 1, False, pf))})'
    if k == 'case':
        n = _i(draw, 1, 2)
        whens = ' '.join(f'when {sub(True)} then {sub()}' for _ in range(n))
        els = f' else {sub()}' if (_i(draw, 0, 1) or 'case-noelse' in pf) else ''
        return f'case {whens}{els} end'
    if k == 'case_arg':
        n = _i(draw, 1, 2)
        whens = ' '.join(f'when {sub()} then {sub()}' for _ in range(n))
        els = f' else {sub()}' if _i(draw, 0, 1) else ''
        return f'case {sub()} {whens}{els} end'
    if k == 'cast':
        t = _pick(draw, TYPES)
        form = _i(draw, 0, 2)
        if form == 0 or (form == 2 and 'convert' in pf):
            return f'cast({sub()} as {t})'
        if form == 1:
            return f'cast({sub()} as decimal(10, 2))'
        return f'convert({sub()}, {t})'
    if k == 'typecast':
        return f'{leaf()}::{_pick(draw, TYPES)}'
    if k == 'interval':
        return "interval '1 day'"
    if k == 'tuple':
        n = _i(draw, 2, 3)
        return '(' + ', '.join(sub() for _ in range(n)) + ')'
    if k == 'subselect':
        return f'({draw(select(depth - 1, False, pf))})'
    if k == 'paren':
        return f'({sub()})'
    if k == 'window':
        fns = ['row_number()', 'rank()', f'sum({sub()})', f'lag({sub()}, 1)']
        if 'window-expr' not in pf:
            fns += [f'sum({leaf()}) + 1']
        fn = _pick(draw, fns)
        parts = []
        if _i(draw, 0, 3):
            n = _i(draw, 1, 2)
            parts.append('partition by ' + ', '.join(sub() for _ in range(n)))
        if _i(draw, 0, 3):
            n = _i(draw, 1, 2)
            parts.append('order by ' + ', '.join(order_term(draw, depth - 1, pf) for _ in range(n)))
        frame = ''
        if 'frame' not in pf and _i(draw, 0, 5) == 0:
            frame = ' rows between unbounded preceding and current row'
        return f'{fn} over ({" ".join(parts)}{frame})'
    raise AssertionError(k)


def order_term(draw, depth, pf):
    if 'order-expr' in pf:
        e = _pick(draw, COLS)
    else:
        e = draw(expr(max(depth, 0), False, False, pf))
    return e + _pick(draw, ['', '', ' desc', ' asc', ' nulls last', ' desc nulls first'])


@st.composite
def from_item(draw, depth, pf):
    k = _i(draw, 0, 5)
    if k <= 3 or depth <= 0:
        t = _pick(draw, TABLES)
        al = _pick(draw, ['', '', ' as ' + _pick(draw, ALIASES), ' ' + _pick(draw, ALIASES)])
        return t + al
    if k == 4 or 'from-setop' in pf:
        return f'({draw(select(depth - 1, False, pf))}) as {_pick(draw, ALIASES)}'
    return f'({draw(setop(depth - 1, pf))}) as {_pick(draw, ALIASES)}'


@st.composite
def from_clause(draw, depth, pf):
    k = _i(draw, 0, 5)
    first = draw(from_item(depth, pf))
    if k <= 1:
        return first
    n = _i(draw, 1, 2)
    if k == 2:
        return ', '.join([first] + [draw(from_item(depth, pf)) for _ in range(n)])
    out = first
    joins = [j for j in JOINS if 'outer-join' not in pf or j not in ('left outer join', 'full outer join')]
    for _ in range(n):
        jt = _pick(draw, joins)
        out += f' {jt} {draw(from_item(depth, pf))}'
        if _i(draw, 0, 4):
            out += f' on {draw(expr(min(depth, 1), True, False, pf))}'
    return out


@st.composite
def select(draw, depth=2, ctes=False, pf=frozenset()):
    d1 = max(depth, 0)
    out = ''
    if ctes and _i(draw, 0, 2) == 0:
        n = _i(draw, 1, 2)
        items = []
        for j in range(n):
            if 'cte-setop' in pf or _i(draw, 0, 3):
                body = draw(select(d1 - 1, False, pf))
            else:
                body = draw(setop(d1 - 1, pf))
            cols = ' (c1, c2)' if _i(draw, 0, 4) == 0 else ''
            items.append(f'w{j}{cols} as ({body})')
        out += 'with ' + ', '.join(items) + ' '
    nt = _pick(draw, [1, 1, 2, 2, 3])
    tg = []
    for _ in range(nt):
        k = _i(draw, 0, 9)
        if k == 0:
            t = '*'
        elif k == 1 and 'table-star' not in pf:
            t = 't1.*'
        else:
            t = draw(expr(_i(draw, 0, d1), False, True, pf))
            if _i(draw, 0, 3) == 0:
                t += _pick(draw, [' as ', ' ']) + _pick(draw, ['c1', 'c2', '`my col`'])
        tg.append(t)
    out += 'select ' + _pick(draw, ['', '', '', 'distinct ']) + ', '.join(tg)
    has_from = _i(draw, 0, 7) != 0
    if has_from:
        out += ' from ' + draw(from_clause(d1, pf))
        if _i(draw, 0, 2):
            out += ' where ' + draw(expr(_i(draw, 0, d1), True, False, pf))
        if _i(draw, 0, 3) == 0:
            n = _i(draw, 1, 2)
            out += ' group by ' + ', '.join(draw(expr(_i(draw, 0, d1), False, False, pf)) for _ in range(n))
    if _i(draw, 0, 5) == 0:
        out += ' having ' + draw(expr(_i(draw, 0, d1), True, False, pf))
    if has_from and _i(draw, 0, 3) == 0:
        n = _i(draw, 1, 2)
        out += ' order by ' + ', '.join(order_term(draw, _i(draw, 0, d1), pf) for _ in range(n))
    if _i(draw, 0, 4) == 0:
        lim = _pick(draw, ['1', '10', '2, 5'])
        out += ' limit ' + lim
        if _i(draw, 0, 2) == 0 and ',' not in lim:
            out += ' offset 3'
    return out


@st.composite
def setop(draw, depth=2, pf=frozenset()):
    n = 1 if 'setop-chain' in pf else _i(draw, 1, 2)
    parts = [draw(select(depth - 1, False, pf)) for _ in range(n + 1)]
    out = parts[0]
    ops = ['union', 'union all', 'union']
    if 'intersect' not in pf:
        ops += ['intersect', 'except', 'intersect all']
    for p in parts[1:]:
        op = _pick(draw, ops)
        if 'setop-paren' not in pf and _i(draw, 0, 3) == 0:
            p = f'({p})'
        out += f' {op} {p}'
    return out


@st.composite
def dml(draw, depth=2, pf=frozenset()):
    kinds = ['insert-values', 'insert-values', 'insert-values', 'insert-select', 'update', 'update', 'delete', 'delete']
    if 'create' not in pf:
        kinds += ['create-select', 'create-paren']
    if 'update-from' not in pf:
        kinds += ['update-from', 'insert-union']
    if 'update-on' not in pf:
        kinds += ['update-on', 'update-on']
    k = _pick(draw, kinds)
    t = _pick(draw, TABLES)
    if k == 'insert-values':
        nc = _i(draw, 1, 3)
        cols = '(' + ', '.join(['a', 'b', 'c'][:nc]) + ') ' if _i(draw, 0, 2) else ''
        rows = []
        for _ in range(_i(draw, 1, 3)):
            rows.append('(' + ', '.join(draw(expr(_i(draw, 0, depth), False, False, pf)) for _ in range(nc)) + ')')
        return f'insert into {t} {cols}values ' + ', '.join(rows)
    if k == 'insert-select':
        cols = '(a, b) ' if _i(draw, 0, 1) else ''
        return f'insert into {t} {cols}' + draw(select(depth, False, pf))
    if k == 'insert-union':
        cols = '(a, b) ' if _i(draw, 0, 1) else ''
        return f'insert into {t} {cols}' + draw(setop(depth, pf))
    if k in ('update', 'update-from'):
        n = _i(draw, 1, 3)
        sets = ', '.join(f'{c} = {draw(expr(_i(draw, 0, depth), False, False, pf))}' for c in ['a', 'b', 'c'][:n])
        out = f'update {t} set {sets}'
        if k == 'update-from':
            out += f' from ({draw(select(depth - 1, False, pf))}) as s where ' + \
                draw(expr(_i(draw, 0, depth), True, False, pf))
        elif _i(draw, 0, 3):
            out += ' where ' + draw(expr(_i(draw, 0, depth), True, False, pf))
        return out
    if k == 'update-on':
        keys = ', '.join(_pick(draw, ['a', 'b', 't1.a', 'c']) for _ in range(_i(draw, 1, 2)))
        return f'update {t} on {keys} from ({draw(select(depth - 1, False, pf))})'
    if k == 'delete':
        out = f'delete from {t}'
        if _i(draw, 0, 4):
            out += ' where ' + draw(expr(_i(draw, 0, depth), True, False, pf))
        return out
    if k == 'create-select':
        heads = ['create table ', 'create or replace table ']
        if 'if-not-exists' not in pf:
            heads.append('create table if not exists ')
        return _pick(draw, heads) + t + ' ' + draw(select(depth, False, pf))
    return f'create table {t} ({draw(select(depth, False, pf))})'


@st.composite
def statement(draw, profile='mindsdb'):
    """One statement text: select (with CTEs) / set operation / DML, depth 1..3."""
    pf = PROFILES.get(profile, frozenset())
    depth = draw(st.sampled_from([1, 1, 2, 2, 3]))
    k = _pick(draw, ['select', 'select', 'select', 'select', 'setop', 'dml', 'dml', 'dml'])
    if k == 'select':
        return draw(select(depth, True, pf))
    if k == 'setop':
        return draw(setop(depth, pf))
    return draw(dml(depth, pf))
