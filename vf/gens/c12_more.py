"""C12 only (hunting wave): what vf/gens/holes.py + c12_shapes.py did not generate.

* `hole:under-minus`  — a hole directly under a unary minus (`- ?`, `- - ?`): the parser reads `-5` as Constant(-5), so
                        the inlined tree has a constant where the template has UnaryOperation('-', Parameter); drawn in
                        every expression position (override of `operand`); the hole carries `'neg': <number of signs>`
                        and takes numbers only (the statement `- 'x'` / `- NULL` does not exist: the parser rejects it);
* `stmt:unplanned`    — statements the planner does not plan but the prepared-statement interface accepts
                        (SHOW .. WHERE, SET name = value [, ..], CREATE KNOWLEDGE_BASE .. FROM ( select )): judged are the
                        reported count, the count check and the bound tree;
* `stmt:ts`           — selects joining a time-series model (catalog `ts`): time filter `> LATEST`, `> ?`, `BETWEEN ? AND ?`,
                        `= ?`, `? < col`, group filter, holes in the select list, under INSERT / CREATE TABLE too;
* EXTRA               — a bounded list of shapes with holes written `?:clause[:position]`: a CTE referenced twice / by a
                        second CTE / inside INSERT, CREATE TABLE, a sub-select; `? OVER ( .. )`, window frames,
                        substring(? FROM ? FOR ?), `? :: type`, row tuples, `a IN ?`, implicit joins, three joins with
                        sub-selects on the second and third, count(DISTINCT ?), UNION .. ORDER BY, USING, UPDATE .. ON keys,
                        CREATE [OR REPLACE] TABLE .. [(] select [)], HAVING with IN / BETWEEN, DELETE with EXISTS;
* values              — booleans (printed TRUE / FALSE) and strings holding quote characters next to c12_shapes.value().
"""
from hypothesis import strategies as st

from vf.gens import holes, c12_shapes as shapes
from vf.gens.model import SCHEMA

MECHANISM_TAGS = ('hole:under-minus', 'stmt:unplanned')
STR_ALPHABET = holes.STR_ALPHABET + '\'"'


# ---------------------------------------------------------------------------------------------- values
def number():
    return st.one_of(st.integers(-9999, 99999), st.integers(-99999, 99999).map(lambda k: k / 100))


def value():
    strs = st.text(alphabet=STR_ALPHABET, min_size=1, max_size=6)
    return st.integers(0, 11).flatmap(lambda k: st.booleans() if k == 0 else strs if k == 1 else shapes.value())


def values_for(parts):
    """One value per hole; numbers for the holes under a minus sign."""
    hs = holes.holes(parts)
    return st.tuples(*[number() if h.get('neg') else value() for h in hs]).map(list)


def fixed_values(parts, base):
    """Deterministic value lists for the fixed histories: (plain ints, a mix of types)."""
    hs = holes.holes(parts)
    mix = [None, 'x', 2.5, True, "it's", -7, 'a"b', False]
    v1 = [base + i for i in range(len(hs))]
    v2 = [(-(base + i) if i % 2 else (base + i) / 4) if h.get('neg') else mix[i % len(mix)] for i, h in enumerate(hs)]
    return v1, v2


# ---------------------------------------------------------------------------------------------- EXTRA shapes
def T(s, tags=()):
    """'SELECT ?:target FROM t WHERE a = ?:where:in-list' -> (parts, tags); `-?:..` / `--?:..` = hole under minus sign(s)."""
    parts = []
    for w in s.split():
        neg = 0
        while w.startswith('-') and w.lstrip('-').startswith('?:'):
            w = w[1:]
            neg += 1
            parts.append('-')
        if w.startswith('?:'):
            f = w[2:].split(':', 2)
            h = {'h': f[0], 'k': f[1] if len(f) > 1 and f[1] else 'operand', 'd': f[2] if len(f) > 2 else ''}
            if neg:
                h['neg'] = neg
            parts.append(h)
        else:
            parts.append(w)
    return holes.merge_text(parts), list(tags) + (['hole:under-minus'] if any(h.get('neg') for h in holes.holes(parts))
                                                   else [])


_CTE = 'WITH w1 AS ( SELECT a AS c1 , b AS c2 FROM int1.t1 WHERE c = ?:cte/where )'
EXTRA = [T(s, t) for s, t in [
    # a CTE referenced more than once
    (_CTE + ' SELECT x.c1 FROM w1 AS x JOIN w1 AS y ON x.c1 = y.c2 + ?:on WHERE x.c2 = ?:where', ['cte:twice']),
    (_CTE + ' SELECT x.c1 FROM w1 AS x JOIN int2.t3 AS y ON x.c1 = y.a + ?:on JOIN w1 AS z ON z.c1 = ?:on '
            'WHERE x.c2 = ?:where', ['cte:twice']),
    (_CTE + ' , w2 AS ( SELECT c1 FROM w1 WHERE c2 = ?:cte/where ) SELECT w2.c1 FROM w2 JOIN w1 ON w2.c1 = w1.c1 '
            'WHERE w2.c1 = ?:where', ['cte:twice']),
    (_CTE + ' SELECT c1 FROM w1 WHERE c1 IN ( SELECT c2 FROM w1 WHERE c2 > ?:sub-where/where ) AND c2 = ?:where',
     ['cte:twice']),
    (_CTE + ' SELECT c1 FROM w1 UNION SELECT c2 FROM w1 WHERE c1 = ?:union-2/where', ['cte:twice']),
    ('INSERT INTO int2.t3 ( a ) ' + _CTE + ' SELECT c1 FROM w1 WHERE c2 = ?:insert-select/where', ['cte:in-dml']),
    ('CREATE TABLE int2.nt1 ( ' + _CTE + ' SELECT c1 FROM w1 WHERE c2 = ?:create-select/where )', ['cte:in-dml']),
    ('SELECT s.c1 FROM ( ' + _CTE + ' SELECT c1 FROM w1 WHERE c2 = ?:sub-from/where ) AS s WHERE s.c1 = ?:where',
     ['cte:in-sub']),
    ('WITH w1 AS ( SELECT a AS c1 FROM int1.t1 WHERE b = ?:cte/where UNION SELECT a FROM int2.t3 WHERE d = ?:cte/where ) '
     'SELECT c1 FROM w1 WHERE c1 = ?:where', ['cte:setop-body']),
    ('WITH w1 AS ( SELECT ?:cte/target::alias:c1 ) SELECT c1 FROM w1 WHERE c1 = ?:where', ['cte:no-from']),
    # windows
    ('SELECT ?:target:window-function OVER ( PARTITION BY a ORDER BY ?:target:window-order ) FROM int1.t1 '
     'WHERE b = ?:where', ['expr:window']),
    ('SELECT sum( ?:target:func-arg ) OVER ( PARTITION BY ?:target:window-partition , a ORDER BY '
     '?:target:window-order DESC , b ) , ?:target FROM int1.t1 WHERE c = ?:where', ['expr:window']),
    ('SELECT sum( a ) OVER ( PARTITION BY a + ?:target:window-partition ORDER BY b ROWS BETWEEN UNBOUNDED PRECEDING AND '
     'CURRENT ROW ) , ?:target FROM int1.t1 WHERE c = ?:where', ['expr:window-frame']),
    # functions / casts / case
    ('SELECT substring( ?:target:func-from-subject FROM ?:target:func-from-arg FOR ?:target:func-for-arg ) , ?:target '
     'FROM int1.t1 WHERE b = ?:where', ['expr:func-from-for']),
    ('SELECT count( DISTINCT ?:target:func-arg ) , max( DISTINCT a + ?:target:func-arg ) FROM int1.t1 '
     'WHERE b = ?:where', ['expr:func-distinct']),
    ('SELECT ?:target:cast :: int , a FROM int1.t1 WHERE b = ?:where:cast :: char AND c IN ( ?:where:in-list :: int , '
     '?:where:in-list )', ['expr:cast-colons']),
    ('SELECT CAST( ?:target:cast AS int ) , CAST( a + ?:target:cast AS char ) FROM int1.t1 WHERE CAST( ?:where:cast AS '
     'int ) = a', ['expr:cast']),
    ('SELECT CASE ?:target:case-operand WHEN ?:target:case-when THEN ?:target:case-then WHEN ?:target:case-when THEN '
     '?:target:case-then ELSE ?:target:case-else END , ?:target FROM int1.t1 WHERE b = ?:where', ['expr:case-operand']),
    ('SELECT CASE WHEN a = ?:target:case-when THEN ?:target:case-then ELSE CASE ?:target:case-operand WHEN '
     '?:target:case-when THEN ?:target:case-then END END FROM int1.t1 WHERE b = ?:where', ['expr:case-nested']),
    # IN forms
    ('SELECT a FROM int1.t1 WHERE ( a , b ) IN ( ( ?:where:in-list , ?:where:in-list ) , ( ?:where:in-list , '
     '?:where:in-list ) ) AND c = ?:where', ['expr:row-tuples']),
    ('SELECT a FROM int1.t1 WHERE a IN ?:where:in-operand AND b NOT IN ?:where:in-operand', ['expr:in-operand']),
    ('SELECT ?:target IN ( SELECT a FROM int1.t2 WHERE c = ?:sub-where/where ) FROM int1.t1 WHERE b = ?:where',
     ['sub:where']),
    # GROUP / HAVING / ORDER
    ('SELECT a FROM int1.t1 GROUP BY a + ?:group , ?:group HAVING max( b ) BETWEEN ?:having:between AND ?:having:between '
     'AND min( b ) IN ( ?:having:in-list , ?:having:in-list ) ORDER BY a + ?:order , ?:order DESC NULLS LAST',
     ['having:in-between']),
    ('SELECT a FROM int1.t1 WHERE b = ?:union-1/where UNION SELECT a FROM int1.t2 WHERE c = ?:union-2/where '
     'ORDER BY a', ['setop:order']),
    # joins
    ('SELECT x.a FROM int1.t1 AS x JOIN int1.t2 AS y ON x.a = y.a + ?:on JOIN int2.t3 AS z ON z.a = ?:on JOIN int2.t4 AS w '
     'ON w.a = ?:on WHERE x.a = ?:where', ['join:4']),
    ('SELECT x.a FROM int1.t1 AS x JOIN ( SELECT a FROM int1.t2 WHERE c = ?:sub-right/where ) AS y ON x.a = y.a + ?:on '
     'LEFT JOIN ( SELECT a FROM int2.t3 WHERE d = ?:sub-right/where UNION SELECT a FROM int2.t4 WHERE e = '
     '?:sub-right/where ) AS z ON z.a = ?:on WHERE x.a = ?:where', ['join:sub-second-third']),
    ('SELECT x.a FROM int1.t1 AS x , ( SELECT a FROM int2.t3 WHERE d = ?:sub-right/where ) AS y WHERE x.a = ?:where',
     ['join:implicit']),
    ('SELECT x.a FROM int1.t1 AS x JOIN int1.t2 AS y JOIN int2.t3 AS z ON z.a = ?:on WHERE x.a = ?:where',
     ['join:no-condition']),
    ('SELECT s.a FROM ( SELECT a FROM ( SELECT a FROM int1.t1 WHERE b = ?:sub-from/where ) AS x WHERE a = '
     '?:sub-from/where ) AS s WHERE s.a = ?:where', ['sub:nested-from']),
    # DML
    ('INSERT INTO int1.t1 ( a , b ) VALUES ( ?:values , ?:values ) , ( ?:values , 2 ) , ( 3 , ?:values )',
     ['insert:rows=3']),
    ('INSERT INTO int1.t1 VALUES ( ?:values , ?:values::paren , ?:values:arith + 1 , abs( ?:values:func-arg ) , 1 , 2 )',
     ['insert:no-columns']),
    ('INSERT INTO int1.t1 SELECT a , ?:insert-select/target FROM int1.t2 WHERE b = ?:insert-select/where',
     ['insert:select']),
    ('UPDATE int1.t1 SET a = ?:set FROM ( SELECT a FROM int2.t3 WHERE d = ?:update-from/where ) AS s WHERE t1.a = s.a '
     'AND b = ?:where', ['update:from']),
    ('UPDATE int1.t1 ON a , b FROM ( SELECT a , b , ?:update-from/target::alias:c FROM int2.t3 WHERE d = '
     '?:update-from/where )', ['update:on-keys']),
    ('UPDATE int1.t1 SET a = ( SELECT max( a ) FROM int1.t2 WHERE c = ?:sub-scalar/where ) , b = CASE ?:set:case-operand '
     'WHEN 1 THEN ?:set:case-then END WHERE c = ?:where', ['update:sub-scalar']),
    ('DELETE FROM int1.t1 WHERE a IN ( SELECT a FROM int1.t2 WHERE c = ?:sub-where/where ) AND EXISTS ( SELECT 1 FROM '
     'int2.t3 WHERE d = ?:sub-where/where ) AND b = ?:where', ['stmt:delete']),
    ('CREATE OR REPLACE TABLE int1.nt2 ( SELECT a , ?:create-select/target FROM int1.t1 WHERE b = ?:create-select/where )',
     ['create:or-replace']),
    ('CREATE TABLE int1.nt3 SELECT a FROM int1.t1 WHERE b = ?:create-select/where AND c = ?:create-select/where',
     ['create:bare-select']),
    # holes under a minus sign
    ('SELECT -?:target , a FROM int1.t1 WHERE b = -?:where AND c = --?:where AND d = - ?:where::paren AND '
     'e > -?:where:arith + 1', []),
    ('SELECT a FROM int1.t1 WHERE b BETWEEN -?:where:between AND ?:where:between AND c IN ( -?:where:in-list , '
     '?:where:in-list ) ORDER BY -?:order', []),
    ('INSERT INTO int1.t1 ( a , b ) VALUES ( -?:values , ?:values ) , ( 1 , -?:values )', ['insert:rows=2']),
    ('UPDATE int1.t1 SET a = -?:set , b = ?:set WHERE c = -?:where', []),
]]
EXTRA_PREDICTOR = [T(s, t) for s, t in [
    ('SELECT * FROM mindsdb.pred WHERE a = -?:where AND b = ?:where', ['pred:from-pred']),
    ('SELECT * FROM mindsdb.pred WHERE a = ?:where AND b = ?:where USING k = 1', ['pred:using']),
    ('SELECT * FROM int1.t1 AS x JOIN mindsdb.pred AS m USING k = 1 WHERE x.b = ?:where AND x.a > -?:where',
     ['pred:using']),
    ('SELECT m.p , ?:target FROM int1.t1 AS x JOIN mindsdb.pred AS m ON x.a = ?:on WHERE x.b = ?:where',
     ['pred:join-pred']),
]]
UNPLANNED = [T(s, ['stmt:unplanned'] + t) for s, t in [
    ('SHOW TABLES WHERE a = ?:where', ['unplanned:show']),
    ('SHOW FULL TABLES FROM int1 WHERE a = ?:where AND b IN ( ?:where:in-list , ?:where:in-list )', ['unplanned:show']),
    ('SHOW DATABASES WHERE name LIKE ?:where:like OR a BETWEEN ?:where:between AND ?:where:between', ['unplanned:show']),
    ('SET x = ?:set', ['unplanned:set']),
    ('SET @v = ?:set:arith + 1', ['unplanned:set']),
    ('SET x = ?:set , GLOBAL y = concat( ?:set:func-arg , ?:set:func-arg )', ['unplanned:set']),
    ('CREATE KNOWLEDGE_BASE kb1 FROM ( SELECT a , ?:kb-select/target FROM int1.t1 WHERE b = ?:kb-select/where ) '
     'USING model = m1', ['unplanned:kb']),
]]
TS = [T(s, ['stmt:ts'] + t) for s, t in [
    ('SELECT * FROM int1.t1 AS x JOIN mindsdb.tp AS m WHERE x.a > LATEST AND x.b = ?:where', ['ts:latest']),
    ('SELECT * FROM int1.t1 AS x JOIN mindsdb.tp AS m WHERE x.a > ?:where AND x.b = ?:where', ['ts:greater']),
    ('SELECT * FROM int1.t1 AS x JOIN mindsdb.tp AS m WHERE x.a BETWEEN ?:where:between AND ?:where:between AND '
     'x.b = ?:where', ['ts:between']),
    ('SELECT * FROM int1.t1 AS x JOIN mindsdb.tp AS m WHERE ?:where < x.a AND x.b = ?:where', ['ts:value-first']),
    ('SELECT m.p , ?:target FROM int1.t1 AS x JOIN mindsdb.tp AS m WHERE x.a = ?:where AND x.b = ?:where LIMIT 4',
     ['ts:equal']),
    ('SELECT * FROM int1.t1 AS x JOIN mindsdb.tp0 AS m WHERE x.a > ?:where', ['ts:no-group']),
    ('SELECT * FROM int1.t1 AS x JOIN mindsdb.tp AS m WHERE x.a > -?:where AND x.b = -?:where', ['ts:greater']),
    ('INSERT INTO int1.t2 SELECT * FROM int1.t1 AS x JOIN mindsdb.tp AS m WHERE x.a > LATEST AND x.b = '
     '?:insert-select/where', ['ts:latest', 'insert:select']),
    ('CREATE TABLE int1.nt4 ( SELECT m.p , ?:create-select/target FROM int1.t1 AS x JOIN mindsdb.tp AS m WHERE x.a > '
     '?:create-select/where AND x.b = ?:create-select/where )', ['ts:greater']),
]]


# ---------------------------------------------------------------------------------------------- random templates
class Gen(shapes.Gen):
    def operand(self, c, cols, depth, k='operand', p_hole=4):
        out = super().operand(c, cols, depth, k, p_hole)
        if len(out) == 1 and isinstance(out[0], dict) and not out[0].get('d') and self.chance(1, 12):
            n = 2 if self.chance(1, 5) else 1
            out[0]['neg'] = n
            self.tags.add('hole:under-minus')
            return ['-'] * n + out
        return out

    def unplanned(self, depth):
        kind = self.pick(['show', 'show', 'set', 'set', 'kb'])
        self.tags.add('stmt:unplanned')
        self.tags.add('unplanned:' + kind)
        if kind == 'show':
            head = self.pick([['SHOW TABLES'], ['SHOW FULL TABLES FROM int1'], ['SHOW DATABASES'], ['SHOW MODELS'],
                              ['SHOW COLUMNS FROM t1']])
            return head + ['WHERE'] + self.cond('where', ['a', 'b', 'name'], min(depth, 1))
        if kind == 'set':
            out = ['SET']
            k = self.draw(st.integers(1, 3))
            for i in range(k):
                if i:
                    out.append(',')
                # (the grammar takes `@variable = ..` only as a single item)
                out += self.pick([['x%d' % i], ['GLOBAL', 'g%d' % i], ['SESSION', 's%d' % i]]
                                 + ([['@v']] if k == 1 else [])) + ['='] \
                    + self.operand('set', [], 1, 'operand', p_hole=7)
            return out
        inner, _ = self.select_in('kb-select', max(depth - 1, 0))
        return ['CREATE KNOWLEDGE_BASE', self.fresh('kb'), 'FROM', '('] + inner + [')', 'USING model = m1']

    def ts_select(self):
        self.tags.add('stmt:ts')
        model, grouped = self.pick([('tp', True), ('tp', True), ('tp0', False)])
        cols = ['x.a', 'x.b']
        tf = self.pick(['latest', 'greater', 'greater-eq', 'between', 'equal', 'value-first', 'less', 'none'])
        self.tags.add('ts:' + tf)
        H = lambda k='operand': self.operand('where', [], 0, k, p_hole=9)
        conds = {'latest': [['x.a > LATEST']], 'greater': [['x.a >'] + H()], 'greater-eq': [['x.a >='] + H()],
                 'between': [['x.a BETWEEN'] + H('between') + ['AND'] + H('between')], 'equal': [['x.a ='] + H()],
                 'value-first': [H() + ['< x.a']], 'less': [['x.a <'] + H()], 'none': []}[tf]
        if grouped and self.chance(4, 5):
            conds.append(self.pick([['x.b ='] + H(), ['x.b ='] + H(),
                                    ['x.b IN ('] + H('in-list') + [','] + H('in-list') + [')']]))
        if self.chance(1, 5):
            conds.reverse()
        out = ['SELECT']
        if self.chance(1, 2):
            out.append('*')
        else:
            out += ['m.p', ','] + self.operand('target', cols, 1, 'operand', p_hole=6)
        out += ['FROM int1.t1 AS x', self.pick(['JOIN', 'JOIN', 'LEFT JOIN']), 'mindsdb.' + model, 'AS m']
        for i, cnd in enumerate(conds):
            out += ['AND' if i else 'WHERE'] + cnd
        if self.chance(1, 4):
            out += ['LIMIT', self.pick(['1', '4'])]
        wrap = self.pick(['', '', '', 'insert', 'create'])
        if wrap:
            out = [{'h': 'x-select/' + p['h'], **{k: v for k, v in p.items() if k != 'h'}} if isinstance(p, dict) else p
                   for p in out]
            out = (['INSERT INTO int1.t2'] + out) if wrap == 'insert' else (['CREATE TABLE int1.nt9 ('] + out + [')'])
            self.tags.add('ts:under-' + wrap)
        return out

    def statement(self):
        r = self.draw(st.integers(0, 29))
        d = self.max_depth - 1
        if r in (0, 1):
            return self.unplanned(d)
        if r in (2, 3, 4):
            pool = EXTRA + (EXTRA_PREDICTOR if self.predictor else [])
            parts, tags = pool[self.draw(st.integers(0, len(pool) - 1))]
            self.tags |= set(tags) | {'stmt:extra'}
            return [dict(p) if isinstance(p, dict) else p for p in parts]
        if self.catalog == 'ts' and r < 17:
            return self.ts_select()
        return super().statement()


@st.composite
def template(draw, catalog='names', predictor=False, max_depth=2):
    g = Gen(draw, catalog, predictor, max_depth)
    parts = g.statement()
    return {'parts': holes.merge_text(parts), 'tags': sorted(g.tags)}
