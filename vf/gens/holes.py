"""G-holes: statement *templates* with n >= 0 placeholder holes (for C12).

A template is a list of parts; a part is either a piece of SQL text (str) or a hole
`{'h': clause, 'k': expression position, 'd': decoration}`:

* clause  — the clause the hole sits in, prefixed by the scope of the enclosing sub-selects, e.g. `where`,
  `sub-left/where`, `on`, `target`, `values`, `set`, `group`, `having`, `order`, `cte/where`, `union-right/where`;
* k       — the expression position: `operand`, `case-operand`, `case-when`, `case-then`, `case-else`, `func-arg`,
  `func-from-arg`, `func-from-subject`, `in-list`, `between`, `like`, `cast`, `window-partition`, `window-order`, `arith`;
* d       — `''`, `'alias:<name>'` (the hole itself carries `AS <name>`, printed right after it), `'paren'` (the hole
  alone is wrapped in grouping parentheses; also the single item of `x IN ( ? )`) or `'paren+alias:<name>'`.

`text(parts)` prints the `?` text, `text(parts, values)` the inlined text: the i-th hole *in textual order* is replaced
by the literal of values[i].  Parts are separated by single blanks, so a negative literal never glues to a preceding
`-` (no `--` comment can arise).  All random choices are Hypothesis draws.
"""
from hypothesis import strategies as st

from vf.gens.model import SCHEMA

PLACES = {'t1': 'int1', 't2': 'int1', 't3': 'int2', 't4': 'int2'}
ALL_COLUMNS = ['a', 'b', 'c', 'd', 'e', 's']
JOINS = ['JOIN', 'INNER JOIN', 'LEFT JOIN', 'RIGHT JOIN', 'FULL JOIN']
STR_ALPHABET = 'abcxyzABZ019 _-%.,:;!?()*/+=<>@#'


# ---------------------------------------------------------------------------------------------- printing
def literal(v):
    if isinstance(v, bool):
        raise TypeError('bool is not in the value domain')
    if isinstance(v, int):
        return str(v)
    if isinstance(v, float):
        return repr(v)
    if isinstance(v, str):
        assert "'" not in v and '"' not in v and '\\' not in v
        return "'" + v + "'"
    raise TypeError(type(v))


def holes(parts):
    return [p for p in parts if isinstance(p, dict)]


def text(parts, values=None, drop=()):
    """`?` text (values None) or inlined text.  drop: decorations of *holes* to leave out ('alias' / 'paren')."""
    out = []
    i = 0
    for p in parts:
        if isinstance(p, dict):
            s = '?' if values is None else literal(values[i])
            i += 1
            d = p.get('d') or ''
            if d.startswith('paren') and 'paren' not in drop:
                s = '( ' + s + ' )'
            if 'alias:' in d and 'alias' not in drop:
                s = s + ' AS ' + d.split('alias:', 1)[1]
            out.append(s)
        else:
            out.append(p)
    return ' '.join(out)


# ---------------------------------------------------------------------------------------------- values
def value():
    ints = st.integers(-9999, 99999)
    floats = st.integers(-99999, 99999).map(lambda k: k / 100)
    strs = st.text(alphabet=STR_ALPHABET, min_size=0, max_size=6)
    return st.one_of(ints, ints, floats, strs)


def values(n):
    return st.lists(value(), min_size=n, max_size=n)


# ---------------------------------------------------------------------------------------------- templates
class Gen:
    def __init__(self, draw, catalog='names', predictor=False, max_depth=2):
        self.draw = draw
        self.catalog = catalog
        self.predictor = predictor
        self.max_depth = max_depth
        self.scope = []
        self.n_alias = 0
        self.tags = set()

    # -- helpers
    def pick(self, seq):
        seq = list(seq)
        if len(seq) == 1:
            return seq[0]
        return seq[self.draw(st.integers(0, len(seq) - 1))]

    def chance(self, num, den):
        return self.draw(st.integers(0, den - 1)) < num

    def fresh(self, prefix):
        self.n_alias += 1
        return f'{prefix}{self.n_alias}'

    def clause(self, c):
        return '/'.join(self.scope + [c])

    def hole(self, c, k, d=''):
        return {'h': self.clause(c), 'k': k, 'd': d}

    def table(self, pool=None):
        t = self.pick(pool or sorted(SCHEMA))
        place = PLACES[t]
        if self.catalog == 'default-int1' and place == 'int1' and self.chance(1, 2):
            return t, t
        return t, f'{place}.{t}'

    def column(self, cols):
        return self.pick(cols)

    # -- expressions
    def operand(self, c, cols, depth, k='operand', p_hole=4):
        """One operand: hole / column / literal / compound.  Returns a list of parts."""
        r = self.draw(st.integers(0, 9))
        if r < p_hole:
            return [self.hole(c, k)]
        if r < p_hole + 2 and cols:
            return [self.column(cols)]
        if r < p_hole + 3 or depth <= 0:
            return [self.pick(['1', '2', '7', "'lit'", '0.5', 'NULL'])] if (not cols or self.chance(1, 2)) \
                else [self.column(cols)]
        return self.compound(c, cols, depth - 1)

    def nested(self, parts):
        """A compound operand is parenthesised when it is used as an operand; a single part stays bare."""
        if len(parts) == 1 or (parts[0] == '(' and parts[1] == 'SELECT' and parts[-1] == ')'):
            return parts
        return ['('] + parts + [')']

    def compound(self, c, cols, depth):
        kind = self.pick(['arith', 'arith', 'func', 'func', 'func-from', 'case-operand', 'case-operand', 'case-search',
                          'cast', 'scalar-sub', 'paren-hole'])
        self.tags.add('expr:' + kind)
        if kind == 'arith':
            op = self.pick(['+', '-', '*', '/', '%', '||'])
            return (self.nested(self.operand(c, cols, depth, 'arith')) + [op]
                    + self.nested(self.operand(c, cols, depth, 'arith')))
        if kind == 'func':
            name, arity = self.pick([('coalesce', 2), ('coalesce', 3), ('abs', 1), ('upper', 1), ('ifnull', 2),
                                     ('concat', 2), ('round', 2), ('count', 1), ('max', 1)])
            out = [name + '(']
            for i in range(arity):
                if i:
                    out.append(',')
                out += self.operand(c, cols, depth, 'func-arg', p_hole=5)
            return out + [')']
        if kind == 'func-from':
            name = self.pick(['substring', 'substring', 'extract', 'trim'])
            if name == 'extract':
                subject = [self.pick(['year', 'month', 'day'])]
            else:
                subject = self.nested(self.operand(c, cols, depth, 'func-from-subject', p_hole=3))
            return [name + '('] + subject + ['FROM'] + self.nested(self.operand(c, cols, depth, 'func-from-arg', p_hole=7)) \
                + [')']
        if kind == 'case-operand':
            out = ['CASE'] + self.nested(self.operand(c, cols, depth, 'case-operand', p_hole=6))
            for _ in range(self.draw(st.integers(1, 2))):
                out += ['WHEN'] + self.nested(self.operand(c, cols, depth, 'case-when', p_hole=5))
                out += ['THEN'] + self.nested(self.operand(c, cols, depth, 'case-then', p_hole=5))
            if self.chance(2, 3):
                out += ['ELSE'] + self.nested(self.operand(c, cols, depth, 'case-else', p_hole=5))
            return out + ['END']
        if kind == 'case-search':
            out = ['CASE']
            for _ in range(self.draw(st.integers(1, 2))):
                out += ['WHEN'] + self.cond(c, cols, depth, k='case-when')
                out += ['THEN'] + self.nested(self.operand(c, cols, depth, 'case-then', p_hole=5))
            if self.chance(2, 3):
                out += ['ELSE'] + self.nested(self.operand(c, cols, depth, 'case-else', p_hole=5))
            return out + ['END']
        if kind == 'cast':
            return ['CAST('] + self.operand(c, cols, depth, 'cast', p_hole=6) + ['AS', self.pick(['int', 'char', 'float']),
                                                                             ')']
        if kind == 'paren-hole':
            return [self.hole(c, 'operand', 'paren')]
        # scalar sub-select
        return self.scalar_sub(c, depth)

    def window(self, c, cols):
        """A window function (the grammar takes it as a whole select-list item only)."""
        self.tags.add('expr:window')
        return [self.pick(['sum', 'max', 'count']) + '(', self.column(cols), ')', 'OVER', '(', 'PARTITION BY'] \
            + self.nested(self.operand(c, cols, 0, 'window-partition', p_hole=5)) + ['ORDER BY'] \
            + self.nested(self.operand(c, cols, 0, 'window-order', p_hole=5)) + [')']

    def scalar_sub(self, c, depth):
        t, ref = self.table()
        al = self.fresh('q')
        cols = [f'{al}.{x}' for x, _ in SCHEMA[t]]
        self.scope.append('sub-scalar')
        try:
            out = ['(', 'SELECT', self.pick(['max', 'min', 'count']) + '(', self.column(cols), ')', 'FROM', ref, 'AS', al,
                   'WHERE'] + self.cond('where', cols, min(depth, 1)) + [')']
        finally:
            self.scope.pop()
        self.tags.add('sub:scalar')
        return out

    def cond(self, c, cols, depth, k='operand', top=False):
        """A boolean-valued operation (the grammar wants an operation under WHERE / HAVING / ON)."""
        kinds = ['cmp', 'cmp', 'cmp', 'in', 'between', 'like', 'isnull', 'not-in']
        if depth > 0:
            kinds += ['and', 'and', 'or', 'not', 'in-sub', 'exists']
        kind = self.pick(kinds)
        self.tags.add('cond:' + kind)
        d = max(depth - 1, 0)
        if kind == 'cmp':
            lhs = [self.column(cols)] if cols and self.chance(2, 3) else self.nested(self.operand(c, cols, d, k))
            return lhs + [self.pick(['=', '=', '<', '>', '<=', '>=', '!=', '<>'])] \
                + self.nested(self.operand(c, cols, d, k, p_hole=6))
        if kind in ('in', 'not-in'):
            lhs = [self.column(cols)] if cols and self.chance(2, 3) else self.nested(self.operand(c, cols, d, k))
            out = lhs + (['NOT', 'IN'] if kind == 'not-in' else ['IN'])
            items = [self.operand(c, cols, 0, 'in-list', p_hole=7) for _ in range(self.pick([1, 2, 2, 3, 3]))]
            if len(items) == 1 and isinstance(items[0][0], dict):
                # `x IN ( ? )` is read as a parenthesised operand, not as a one-element tuple
                items[0][0]['d'] = 'paren'
                return out + items[0]
            out.append('(')
            for i, it in enumerate(items):
                if i:
                    out.append(',')
                out += it
            return out + [')']
        if kind == 'between':
            lhs = [self.column(cols)] if cols and self.chance(2, 3) else self.nested(self.operand(c, cols, d, k))
            return lhs + ['BETWEEN'] + self.nested(self.operand(c, cols, 0, 'between', p_hole=7)) + ['AND'] \
                + self.nested(self.operand(c, cols, 0, 'between', p_hole=7))
        if kind == 'like':
            lhs = [self.column(cols)] if cols else ["'lit'"]
            return lhs + [self.pick(['LIKE', 'NOT LIKE'])] + self.operand(c, cols, 0, 'like', p_hole=7)
        if kind == 'isnull':
            return self.nested(self.operand(c, cols, d, k, p_hole=2)) + [self.pick(['IS NULL', 'IS NOT NULL'])]
        if kind in ('and', 'or'):
            return ['('] + self.cond(c, cols, d, k) + [')', kind.upper(), '('] + self.cond(c, cols, d, k) + [')']
        if kind == 'not':
            return ['NOT', '('] + self.cond(c, cols, d, k) + [')']
        # sub-selects inside a condition
        t, ref = self.table()
        al = self.fresh('q')
        scols = [f'{al}.{x}' for x, _ in SCHEMA[t]]
        self.scope.append('sub-where')
        try:
            inner = ['SELECT', self.column(scols), 'FROM', ref, 'AS', al, 'WHERE'] + self.cond('where', scols, 0)
        finally:
            self.scope.pop()
        self.tags.add('sub:where')
        if kind == 'exists':
            return [self.pick(['EXISTS', 'NOT EXISTS']), '('] + inner + [')']
        lhs = [self.column(cols)] if cols else ['1']
        return lhs + [self.pick(['IN', 'NOT IN']), '('] + inner + [')']

    # -- SELECT
    def from_item(self, side, depth, pool=None):
        """One FROM item: (parts, column refs, is_table)."""
        if depth > 0 and self.chance(1, 3):
            al = self.fresh('s')
            self.scope.append('sub-' + side)
            try:
                inner, names = self.select(depth - 1, named_targets=True, pool=pool)
            finally:
                self.scope.pop()
            self.tags.add('sub:from-' + side)
            return ['('] + inner + [')', 'AS', al], [f'{al}.{n}' for n in names], False
        t, ref = self.table(pool)
        if self.chance(3, 4):
            al = self.fresh('x')
            return [ref, 'AS', al], [f'{al}.{x}' for x, _ in SCHEMA[t]], True
        return [ref], [f'{t}.{x}' for x, _ in SCHEMA[t]], True

    def select(self, depth, named_targets=False, pool=None, allow_star=True):
        """SELECT ... ; returns (parts, output column names)."""
        shape = self.pick(['table', 'table', 'table', 'join', 'join', 'join3', 'none'] if not named_targets
                          else ['table', 'table', 'join'])
        self.tags.add('from:' + shape)
        frm, cols, all_tables = [], [], True
        if shape == 'table':
            frm, cols, all_tables = self.from_item('from', depth, pool)
            if all_tables and len(frm) == 1 and self.chance(1, 2):
                cols = [x.split('.')[-1] for x in cols]     # bare column names on a single un-aliased table
        elif shape in ('join', 'join3'):
            frm, cols, all_tables = self.from_item('left', depth, pool)
            for j in range(1 if shape == 'join' else 2):
                right, rcols, rt = self.from_item('right', depth, pool)
                all_tables = all_tables and rt
                jk = self.pick(JOINS)
                self.tags.add('join:' + jk)
                cols = cols + rcols
                frm = frm + [jk] + right + ['ON'] + self.cond('on', cols, 1)
        # targets
        out, names = ['SELECT'], []
        if self.chance(1, 8):
            out.append('DISTINCT')
        if allow_star and not named_targets and all_tables and shape != 'none' and self.chance(1, 6):
            out.append('*')
            names = []
        else:
            for i in range(self.draw(st.integers(1, 3))):
                if i:
                    out.append(',')
                if cols and self.chance(1, 12):
                    item = self.window('target', cols)
                else:
                    item = self.operand('target', cols, depth, 'operand', p_hole=1 if named_targets else 3)
                is_hole = len(item) == 1 and isinstance(item[0], dict)
                if named_targets or self.chance(1, 4 if is_hole else 2):
                    name = self.fresh('c')
                    if is_hole:
                        item[0]['d'] = (item[0]['d'] + '+' if item[0]['d'] else '') + 'alias:' + name
                        self.tags.add('hole:aliased')
                    else:
                        item = item + ['AS', name]
                    names.append(name)
                out += item
        if shape != 'none':
            out += ['FROM'] + frm
            if self.chance(2, 3):
                out += ['WHERE'] + self.cond('where', cols, depth, top=True)
            grouped = self.chance(1, 4)
            if grouped:
                out += ['GROUP BY']
                for i in range(self.draw(st.integers(1, 2))):
                    if i:
                        out.append(',')
                    out += self.operand('group', cols, 1, 'operand', p_hole=3)
                if self.chance(1, 2):
                    out += ['HAVING', self.pick(['count(*)', 'sum(' + self.column(cols) + ')']),
                            self.pick(['>', '<', '='])] + self.nested(self.operand('having', cols, 1, 'operand', p_hole=7))
            elif self.chance(1, 8):
                # HAVING without GROUP BY (both grammars accept it)
                out += ['HAVING', self.pick(['count(*)', 'sum(' + self.column(cols) + ')']),
                        self.pick(['>', '<', '='])] + self.nested(self.operand('having', cols, 1, 'operand', p_hole=9))
            if self.chance(1, 3):
                out += ['ORDER BY']
                for i in range(self.draw(st.integers(1, 2))):
                    if i:
                        out.append(',')
                    out += self.operand('order', cols, 1, 'operand', p_hole=4)
                    out += self.pick([[], [], ['ASC'], ['DESC'], ['DESC', 'NULLS', 'LAST'], ['NULLS', 'FIRST']])
            if self.chance(1, 5):
                out += ['LIMIT', self.pick(['1', '5', '10'])]
                if self.chance(1, 3):
                    out += ['OFFSET', self.pick(['1', '2'])]
        return out, names

    def setop(self, depth):
        left, _ = self.select_in('union-left', depth)
        right, _ = self.select_in('union-right', depth)
        op = self.pick(['UNION', 'UNION ALL', 'UNION', 'INTERSECT', 'EXCEPT'])
        self.tags.add('setop:' + op)
        return left + [op] + right

    def select_in(self, scope, depth, **kw):
        self.scope.append(scope)
        try:
            return self.select(depth, **kw)
        finally:
            self.scope.pop()

    def cte(self, depth):
        name = self.fresh('w')
        inner, names = self.select_in('cte', depth, named_targets=True)
        cols = [f'{name}.{n}' for n in names]
        out = ['WITH', name, 'AS', '('] + inner + [')', 'SELECT']
        for i in range(self.draw(st.integers(1, 2))):
            if i:
                out.append(',')
            out += self.operand('target', cols, 1, 'operand', p_hole=3)
        out += ['FROM', name]
        if self.chance(2, 3):
            out += ['WHERE'] + self.cond('where', cols, 1)
        self.tags.add('cte')
        return out

    # -- predictor shapes
    def predictor_select(self):
        shape = self.pick(['from-pred', 'join-pred', 'join-pred'])
        self.tags.add('pred:' + shape)
        if shape == 'from-pred':
            out = ['SELECT', '*', 'FROM', 'mindsdb.pred', 'WHERE']
            cs = self.pick([['a'], ['a', 'b'], ['a', 'b', 's']])
            for i, col in enumerate(cs):
                if i:
                    out.append('AND')
                out += [col, '='] + ([self.hole('where', 'operand')] if self.chance(3, 4) else ['3'])
            return out
        t, ref = self.table(['t1', 't2'])
        cols = [f'x.{c}' for c, _ in SCHEMA[t]]
        out = ['SELECT']
        if self.chance(1, 2):
            out += ['m.p', ',', self.column(cols)]
        else:
            out += ['*']
        out += ['FROM', ref, 'AS', 'x', 'JOIN', 'mindsdb.pred', 'AS', 'm']
        if self.chance(2, 3):
            out += ['WHERE'] + self.cond('where', cols, 1)
        if self.chance(1, 4):
            out += ['LIMIT', '5']
        return out

    # -- DML
    def insert(self, depth):
        t, ref = self.table()
        cols = [c for c, _ in SCHEMA[t]]
        if self.chance(1, 4):
            inner, _ = self.select_in('insert-select', depth)
            self.tags.add('insert:select')
            return ['INSERT INTO', ref, '(', ' , '.join(cols[:2]), ')'] + inner
        out = ['INSERT INTO', ref]
        if self.chance(4, 5):
            out += ['(', ' , '.join(cols), ')']
        out += ['VALUES']
        nrows = self.draw(st.integers(1, 3))
        for r in range(nrows):
            if r:
                out.append(',')
            out.append('(')
            for i in range(len(cols)):
                if i:
                    out.append(',')
                out += self.operand('values', [], 1 if self.chance(1, 4) else 0, 'operand', p_hole=7)
            out.append(')')
        self.tags.add('insert:rows=%d' % nrows)
        return out

    def update(self, depth):
        t, ref = self.table()
        cols = [c for c, _ in SCHEMA[t]]
        k = self.draw(st.integers(1, len(cols)))
        start = self.draw(st.integers(0, len(cols) - 1))
        setcols = [cols[(start + i) % len(cols)] for i in range(k)]      # distinct SET columns
        out = ['UPDATE', ref, 'SET']
        for i, col in enumerate(setcols):
            if i:
                out.append(',')
            out += [col, '='] + self.operand('set', cols, 1, 'operand', p_hole=6)
        wcols = list(cols)
        has_from = self.chance(1, 4)
        if has_from:
            al = self.fresh('s')
            inner, names = self.select_in('update-from', max(depth - 1, 0), named_targets=True)
            out += ['FROM', '('] + inner + [')', 'AS', al]
            wcols += [f'{al}.{n}' for n in names]
            self.tags.add('update:from')
        if has_from or self.chance(4, 5):      # the grammar has UPDATE .. FROM (select) AS s only with WHERE
            out += ['WHERE'] + self.cond('where', wcols, depth)
        return out

    def delete(self, depth):
        t, ref = self.table()
        cols = [c for c, _ in SCHEMA[t]]
        return ['DELETE FROM', ref, 'WHERE'] + self.cond('where', cols, depth)

    def create_table(self, depth):
        inner, _ = self.select_in('create-select', depth)
        return ['CREATE TABLE', 'int1.' + self.fresh('nt'), '('] + inner + [')']

    def statement(self):
        kinds = ['select'] * 8 + ['setop', 'cte', 'insert', 'insert', 'update', 'update', 'update', 'delete', 'create']
        if self.predictor:
            kinds += ['pred'] * 5
        kind = self.pick(kinds)
        self.tags.add('stmt:' + kind)
        d = self.max_depth
        if kind == 'select':
            return self.select(d)[0]
        if kind == 'setop':
            return self.setop(d - 1)
        if kind == 'cte':
            return self.cte(d - 1)
        if kind == 'insert':
            return self.insert(d - 1)
        if kind == 'update':
            return self.update(d - 1)
        if kind == 'delete':
            return self.delete(d - 1)
        if kind == 'create':
            return self.create_table(d - 1)
        return self.predictor_select()


def merge_text(parts):
    """Adjacent text parts joined (smaller cases); holes stay separate parts."""
    out = []
    for p in parts:
        if isinstance(p, str) and out and isinstance(out[-1], str):
            out[-1] = out[-1] + ' ' + p
        else:
            out.append(p)
    return out


@st.composite
def template(draw, catalog='names', predictor=False, max_depth=2):
    g = Gen(draw, catalog, predictor, max_depth)
    parts = g.statement()
    return {'parts': merge_text(parts), 'tags': sorted(g.tags)}
