"""G-catalog: planner catalogs (the keyword arguments of `plan_query`) in every supported encoding, and text templates
for statements that involve models (plain and time-series predictors) in every join position.

Everything produced here is JSON-serialisable, so a drawn catalog / statement can be stored in a case and replayed.

    cat = draw(catalogs())          # {'kwargs': {...plan_query kwargs...}, 'view': {...}, 'tags': [...]}
    plan_query(tree, **kwargs_of(cat))        # kwargs_of deep-copies: the planner writes into predictor dicts
    cfg = model_cfg(cat)            # vf.gens.model.Cfg whose table qualifiers fit the catalog (predictor-free part)
    q = draw(model_queries(cat))    # {'sql': ..., 'meta': {'tags': [...], 'shape': 'T M T', 'wrap': 'insert'}}
    sql, tag = draw(dml_wrap(cat, select_sql))   # INSERT / CREATE TABLE / UPDATE FROM / DELETE ... around a SELECT text

Injected data: the table name `__data__` in a generated text stands for an `ast.Data` node (rows handed to the planner
inside the tree, as the repository's test_injected_data does); `inject_data(tree)` puts the nodes in after parsing.

Schema: the four tables of vf.gens.model (int1: t1(a,b,s), t2(a,c); int2: t3(a,d), t4(a,e)).
Models live in one namespace per catalog (`proj`, `mindsdb` or an ML-engine integration `ml1`):
    m1 (plain, to_predict p), m2 (plain), ts0 (time series without group columns), ts1 / ts2 (1 / 2 group columns);
time-series models are ordered by column b and grouped by columns of t1 (a, s), window 1..3, optional horizon.

Encodings (all of them are used by the repository's own planner tests):
    integrations: list of names | list of dicts {'name','class_type','type'} | mixed list; optional api-class
        integration (int2 itself or an extra api1); project `proj` as a dict of type 'project';
    predictor_metadata: list of dicts with 'name' (+ 'integration_name' or the legacy predictor_namespace) |
        legacy dict {name: info} | absent;
    default_namespace: absent | 'mindsdb' | the models' namespace | 'int1'.
"""
import copy
from hypothesis import strategies as st
from vf.gens import model

PLACES = {'t1': 'int1', 't2': 'int1', 't3': 'int2', 't4': 'int2'}
MODEL_COLS = [('p', 'int'), ('x', 'int'), ('a', 'int')]     # a model accepts / returns any column; these are used
DATA_TABLE = '__data__'
DATA_COLS = [('a', 'int'), ('b', 'int')]
DATA_ROWS = [{'a': 1, 'b': 2}, {'a': 2, 'b': 3}]


def inject_data(tree):
    """Replace every table identifier `__data__` of a parsed statement by an ast.Data node (keeping its alias).
    Returns the number of nodes injected."""
    from mindsdb_sql.parser import ast
    from vf.oracles.struct import walk
    n = 0
    for node in list(walk(tree)):
        for attr in ('from_table', 'left', 'right', 'from_select'):
            v = getattr(node, attr, None)
            if type(v).__name__ == 'Identifier' and [str(x).lower() for x in v.parts] == [DATA_TABLE]:
                setattr(node, attr, ast.Data(copy.deepcopy(DATA_ROWS), alias=v.alias))
                n += 1
    return n


def _pick(draw, xs):
    xs = list(xs)
    return xs[0] if len(xs) == 1 else xs[draw(st.integers(0, len(xs) - 1))]


def _chance(draw, num, den):
    return draw(st.integers(0, den - 1)) < num


def kwargs_of(cat):
    """Fresh keyword arguments for plan_query (the planner mutates predictor dicts: name / version / integration_name)."""
    return copy.deepcopy(cat['kwargs'] if 'kwargs' in cat else cat)


def integration_list(encoding, api=None, project=True, extra=()):
    """integrations argument: `encoding` in names / dicts / mixed; `api` = name of the api-class integration or None."""
    names = ['int1', 'int2'] + list(extra)
    if api and api not in names:
        names.append(api)
    out = []
    for i, n in enumerate(names):
        as_dict = encoding == 'dicts' or (encoding == 'mixed' and (i % 2 == 0 or n == api))
        if n == api and encoding == 'names':
            as_dict = True                     # an api integration can only be declared through a dict
        if as_dict:
            out.append({'name': n, 'class_type': 'api' if n == api else 'sql', 'type': 'data'})
        else:
            out.append(n)
    if project and encoding in ('dicts', 'mixed'):
        out.append({'name': 'proj', 'class_type': 'project', 'type': 'project'})
    return out


def model_specs(draw, ns):
    """The five models of a catalog with drawn time-series settings."""
    g1 = _pick(draw, [['a'], ['s']])
    g2 = _pick(draw, [['a', 's'], ['s', 'a']])
    g0 = _pick(draw, [[], [], None])
    specs = [
        {'name': 'm1', 'ns': ns, 'ts': False, 'to_predict': _pick(draw, [['p'], 'p', None])},
        {'name': 'm2', 'ns': ns, 'ts': False, 'to_predict': None},
    ]
    for name, g in (('ts0', g0), ('ts1', g1), ('ts2', g2)):
        specs.append({'name': name, 'ns': ns, 'ts': True, 'order_by': 'b', 'group_by': g,
                      'window': draw(st.integers(1, 3)), 'horizon': _pick(draw, [None, None, 1, 2])})
    return specs


def metadata(specs, encoding, explicit_ns=True):
    """predictor_metadata argument: 'list' | 'dict' (legacy) | 'none'."""
    if encoding == 'none':
        return None
    items = []
    for s in specs:
        info = {}
        if explicit_ns:
            info['integration_name'] = s['ns']
        if s.get('to_predict') is not None:
            info['to_predict'] = s['to_predict']
        if s['ts']:
            info.update({'timeseries': True, 'order_by_column': s['order_by'], 'group_by_columns': s['group_by'],
                         'window': s['window']})
            if s.get('horizon') is not None:
                info['horizon'] = s['horizon']
        items.append((s['name'], info))
    if encoding == 'list':
        return [dict(info, name=name) for name, info in items]
    return {name: info for name, info in items}


@st.composite
def catalogs(draw, with_models=True):
    """A catalog: plan_query kwargs + a view telling generators how tables and models can be referenced."""
    enc = _pick(draw, ['names', 'names', 'dicts', 'dicts', 'mixed'])
    api = _pick(draw, [None, None, None, 'int2', 'api1'])
    ns = _pick(draw, ['proj', 'proj', 'mindsdb', 'ml1']) if with_models else 'mindsdb'
    meta_enc = _pick(draw, ['list', 'list', 'dict']) if with_models else _pick(draw, ['none', 'none', 'list'])
    dns = _pick(draw, [None, 'mindsdb', 'mindsdb', ns, 'int1'])
    # how the models' namespace reaches the planner: explicit integration_name, or the legacy predictor_namespace
    explicit_ns = True
    pns = None
    if ns == 'mindsdb':
        explicit_ns = _chance(draw, 1, 2)
        pns = _pick(draw, [None, 'mindsdb', 'MINDSDB'])
    elif ns == 'proj' and _chance(draw, 1, 4):
        explicit_ns = False
        pns = 'proj'
    elif _chance(draw, 1, 3):
        pns = 'mindsdb'
    kw = {'integrations': integration_list(enc, api, project=True, extra=(['ml1'] if ns == 'ml1' else []))}
    specs = model_specs(draw, ns) if with_models else []
    md = metadata(specs, meta_enc, explicit_ns)
    if meta_enc == 'list' and not with_models:
        md = []
    if md is not None:
        kw['predictor_metadata'] = md
    if dns is not None:
        kw['default_namespace'] = dns
    if pns is not None:
        kw['predictor_namespace'] = pns
    tables = {}
    for t, q in PLACES.items():
        refs = [f'{q}.{t}']
        if dns == q:
            refs.append(t)                     # the default namespace resolves unqualified tables
        tables[t] = refs
    models = []
    for s in specs:
        refs = [f"{ns}.{s['name']}"]
        if dns is not None and dns.lower() == ns:
            refs.append(s['name'])
        models.append(dict(s, refs=refs))
    tags = ['integrations:' + enc, 'api:' + str(api), 'model-ns:' + ns, 'metadata:' + meta_enc,
            'default-ns:' + ('none' if dns is None else 'models' if dns == ns else dns),
            'ns-via:' + ('integration_name' if explicit_ns else 'predictor_namespace')]
    return {'kwargs': kw, 'view': {'tables': tables, 'models': models, 'api': api, 'default_namespace': dns,
                                   'model_ns': ns}, 'tags': tags}


def model_cfg(cat, draw=None, **over):
    """vf.gens.model.Cfg for the predictor-free part: qualifiers as the catalog needs them (unqualified tables of the
    default namespace are used when `draw` says so)."""
    places = dict(PLACES)
    dns = cat['view']['default_namespace']
    if draw is not None and dns in ('int1', 'int2') and _chance(draw, 1, 2):
        for t, q in PLACES.items():
            if q == dns:
                places[t] = None
    kw = dict(places=places, always_alias=True, correlated=False, cte=True, window=False, star=True,
              limit_needs_total_order=False, subselect_target=True)
    kw.update(over)
    return model.Cfg(**kw)


# ------------------------------------------------------------------------------------------------- model joins

SHAPES = ['T M'] * 6 + ['M T'] * 3 + ['T M T'] * 6 + ['T M M'] * 4 + ['T T M'] * 3 + ['T M T M', 'T M M T', 'T T M T'] + \
         ['S M'] * 2 + ['N M'] * 2 + ['T M S', 'T M N', 'S M T', 'N M T'] + ['T X'] * 8 + ['X T'] * 3 + ['S X'] * 3 + \
         ['N X', 'T X T', 'T T X', 'X X', 'M M', 'T M X', 'M', 'M', 'X', 'T X M'] + ['?'] * 4 + \
         ['D M', 'D M', 'D M T', 'T M D', 'D X', 'D T', 'D']
JOINS = ['JOIN'] * 6 + ['LEFT JOIN'] * 3 + ['INNER JOIN', 'RIGHT JOIN', 'FULL JOIN']
WRAPS = ['plain'] * 12 + ['union', 'union', 'insert', 'insert-paren', 'create', 'create-replace', 'update-from', 'nested',
                           'nested', 'cte', 'cte2', 'where-in', 'delete-in', 'target-sub']


class ModelQueryGen:
    """Text templates: SELECT over a left-deep join of tables (T), plain models (M), time-series models (X),
    aliased sub-selects (S), native queries (N) and injected data (D), with WHERE / targets / tail / USING drawn per item kind."""

    def __init__(self, draw, cat):
        self.draw = draw
        self.view = cat['view']
        self.tags = set()
        self.n = 0

    def pick(self, xs):
        return _pick(self.draw, xs)

    def chance(self, a, b):
        return _chance(self.draw, a, b)

    def alias(self, prefix):
        self.n += 1
        return f'{prefix}{self.n}'

    # ---- FROM items: (text, ref, cols, kind, extra)
    def table_item(self, prefer=None):
        t = prefer or self.pick(['t1', 't1', 't2', 't3', 't4'])
        ref = self.pick(self.view['tables'][t])
        if self.chance(5, 6):
            al = self.alias('a')
            txt = f'{ref} AS {al}' if self.chance(2, 3) else f'{ref} {al}'
            return txt, al, model.SCHEMA[t], 'T', t
        self.tags.add('table:no-alias')
        return ref, t, model.SCHEMA[t], 'T', t

    def model_item(self, ts=False):
        cands = [m for m in self.view['models'] if m['ts'] == ts]
        m = self.pick(cands)
        ref = self.pick(m['refs'])
        if len(ref.split('.')) == 1:
            self.tags.add('model:bare-name')
        if self.chance(1, 8):
            ref += '.' + str(self.pick([1, 2, 13]))
            self.tags.add('model:version')
        if self.chance(7, 8):
            al = self.alias('p')
            txt = f'{ref} AS {al}' if self.chance(2, 3) else f'{ref} {al}'
            return txt, al, MODEL_COLS, 'X' if ts else 'M', m
        self.tags.add('model:no-alias')
        return ref, m['name'], MODEL_COLS, 'X' if ts else 'M', m

    def sub_item(self):
        t = self.pick(['t1', 't1', 't3'])
        ref = self.pick(self.view['tables'][t])
        if self.chance(1, 8):
            ref = t                    # no integration: resolved by the default namespace or the DML target (dbt form)
            self.tags.add('sub:unqualified-table')
        inner_al = self.alias('i') if self.chance(1, 2) else None
        src = f'{ref} AS {inner_al}' if inner_al else ref
        cols = model.SCHEMA[t]
        where = ''
        if self.chance(1, 2):
            c = self.pick([c for c, ty in cols if ty == 'int'])
            q = (inner_al or t) + '.' if self.chance(1, 2) else ''
            where = f' WHERE {q}{c} {self.pick(["=", ">", "<="])} {self.pick([0, 1, 2])}'
        tg = '*' if self.chance(2, 3) else ', '.join(c for c, _ in cols)
        sub = f'SELECT {tg} FROM {src}{where}'
        if self.chance(1, 6):
            sub += f' LIMIT {self.pick([1, 5])}'
        if self.chance(7, 8):
            al = self.alias('q')
            return f'({sub}) AS {al}', al, cols, 'S', t
        self.tags.add('sub:no-alias')
        return f'({sub})', t, cols, 'S', t

    def native_item(self):
        t = self.pick(['t1', 't3'])
        integ = PLACES[t]
        inner = self.pick([f'select * from {t}', f'select * from {t} where a > 1', f"select a, b from {t} limit 3"])
        if self.chance(7, 8):
            al = self.alias('n')
            return f'{integ} ({inner}) AS {al}', al, model.SCHEMA[t], 'N', t
        self.tags.add('native:no-alias')
        return f'{integ} ({inner})', t, model.SCHEMA[t], 'N', t

    def data_item(self):
        if self.chance(7, 8):
            al = self.alias('d')
            return f'{DATA_TABLE} AS {al}', al, DATA_COLS, 'D', None
        self.tags.add('data:no-alias')
        return DATA_TABLE, DATA_TABLE, DATA_COLS, 'D', None

    def item(self, k, first_table=None):
        if k == 'D':
            return self.data_item()
        if k == 'T':
            return self.table_item(first_table)
        if k == 'M':
            return self.model_item(False)
        if k == 'X':
            return self.model_item(True)
        if k == 'S':
            return self.sub_item()
        return self.native_item()

    # ---- pieces
    def col(self, it, typ='int'):
        cols = [c for c, t in it[2] if t == typ] or [c for c, _ in it[2]]
        return f'{it[1]}.{self.pick(cols)}'

    def const(self):
        return str(self.pick([0, 1, 2, 3]))

    def scalar_sub(self):
        t = self.pick(['t3', 't4', 't2'])
        ref = self.pick(self.view['tables'][t])
        self.tags.add('where:scalar-sub')
        w = f' WHERE a = {self.const()}' if self.chance(1, 2) else ''
        return f'(SELECT {self.pick(["max(a)", "a", "min(a)"])} FROM {ref}{w})'

    def in_sub(self):
        t = self.pick(['t3', 't4', 't2'])
        ref = self.pick(self.view['tables'][t])
        self.tags.add('where:in-sub')
        w = f' WHERE a > {self.const()}' if self.chance(1, 2) else ''
        return f'(SELECT a FROM {ref}{w})'

    def atoms(self, items):
        out = []
        ts_model = next((it for it in items if it[3] == 'X'), None)
        for it in items:
            k = it[3]
            if k in 'TSND':
                n = self.draw(st.integers(0, 2))
                for _ in range(n):
                    kind = self.pick(['cmp', 'cmp', 'cmp', 'text', 'in', 'between', 'insub', 'scalarsub', 'isnull'])
                    c = self.col(it)
                    if kind == 'cmp':
                        out.append(f'{c} {self.pick(["=", "=", ">", "<", ">=", "!="])} {self.const()}')
                    elif kind == 'text':
                        out.append(f"{self.col(it, 'text')} = '{self.pick(['x', 'y'])}'")
                    elif kind == 'in':
                        out.append(f'{c} IN ({self.const()}, {self.const()})')
                    elif kind == 'between':
                        out.append(f'{c} BETWEEN {self.pick([0, 1])} AND {self.pick([2, 3])}')
                    elif kind == 'insub':
                        out.append(f'{c} {self.pick(["IN", "IN", "NOT IN"])} {self.in_sub()}')
                    elif kind == 'scalarsub':
                        out.append(f'{c} {self.pick(["=", ">"])} {self.scalar_sub()}')
                    else:
                        out.append(f'{c} IS {self.pick(["", "NOT "])}NULL')
            elif k == 'M':
                # one `=` atom per model column at most: a second value for the same parameter is silently dropped by
                # the planner (a matter of C14), which would leave the sub-select computing it unconsumed
                n = self.draw(st.integers(0, 2))
                free = ['x', 'a', 'y']
                for _ in range(n):
                    kind = self.pick(['eq', 'eq', 'eq', 'target', 'cmp', 'sub', 'text'])
                    if kind == 'target':
                        out.append(f'{it[1]}.p {self.pick(["=", ">"])} {self.const()}')
                    elif kind == 'cmp':
                        out.append(f'{it[1]}.z {self.pick([">", "<", "!="])} {self.const()}')
                    elif free:
                        c = free.pop(self.draw(st.integers(0, len(free) - 1)))
                        if kind == 'eq':
                            out.append(f'{it[1]}.{c} = {self.const()}')
                        elif kind == 'sub':
                            self.tags.add('where:model-param-sub')
                            out.append(f'{it[1]}.{c} = {self.scalar_sub()}')
                        else:
                            out.append(f"{it[1]}.{c} = '{self.pick(['x', ''])}'")
        if ts_model is not None:
            spec = ts_model[4]
            tab = next((it for it in items if it[3] in 'TSND'), None)
            q = (tab[1] + '.') if tab is not None else ''
            if tab is not None and tab[3] == 'S' and 'sub:no-alias' in self.tags:
                q = ''
            ob = spec['order_by']
            tf = self.pick(['none', 'none', '>', '>', '>=', '<', '<=', '=', 'between', 'latest', 'latest', '=latest',
                            'two'])
            # the generic table atoms above may already filter on other columns (-> PlanningException path): keep few
            if self.chance(3, 4):
                keep = self.chance(1, 3)
                out = [a for a in out if '(SELECT' not in a][:1] if keep else []
            if tf == 'latest':
                out.append(f'{q}{ob} > LATEST')
            elif tf == '=latest':
                out.append(f'{q}{ob} = LATEST')
            elif tf == 'between':
                out.append(f'{q}{ob} BETWEEN {self.pick([0, 1])} AND {self.pick([2, 3])}')
            elif tf == 'two':
                out.append(f'{q}{ob} > {self.const()}')
                out.append(f'{q}{ob} < {self.pick([5, 7])}')
            elif tf != 'none':
                out.append(f'{q}{ob} {tf} ' + str(self.pick([1, 2, "'2020-01-01'"])))
            if tf != 'none':
                self.tags.add('ts:time-filter:' + ('cmp' if tf in ('>', '>=', '<', '<=', '=') else tf))
            for g in (spec['group_by'] or []):
                if self.chance(1, 2):
                    v = "'x'" if g == 's' else self.const()
                    out.append(f'{q}{g} = {v}')
                    self.tags.add('ts:group-filter')
        return out

    def where(self, items):
        atoms = self.atoms(items)
        if not atoms:
            return ''
        # order of conjuncts is a draw too
        order = self.draw(st.permutations(list(range(len(atoms))))) if len(atoms) > 1 else [0]
        atoms = [atoms[i] for i in order]
        text = atoms[0]
        for a in atoms[1:]:
            if self.chance(1, 10):
                self.tags.add('where:or')
                text = f'({text} OR {a})'
            else:
                text = f'{text} AND {a}'
        if self.chance(1, 20):
            self.tags.add('where:not')
            text = f'NOT ({text})'
        return ' WHERE ' + text

    def targets(self, items):
        k = self.pick(['star', 'star', 'cols', 'cols', 'cols', 'tstar', 'mixed'])
        if k == 'star':
            return '*'
        out = []
        if k == 'tstar':
            self.tags.add('target:table-star')
            out.append(f'{self.pick(items)[1]}.*')
            if self.chance(1, 2):
                return ', '.join(out)
        for _ in range(self.draw(st.integers(1, 3))):
            it = self.pick(items)
            kind = 'col' if k == 'cols' else self.pick(['col', 'col', 'const', 'func', 'agg', 'sub', 'arith', 'case'])
            c = self.col(it)
            if kind == 'col':
                out.append(c + (f' AS c{len(out)}' if self.chance(1, 3) else ''))
            elif kind == 'const':
                out.append(self.pick(["1", "'x'", 'null']) + (f' AS c{len(out)}' if self.chance(1, 2) else ''))
            elif kind == 'func':
                out.append(f'abs({c}) AS c{len(out)}')
            elif kind == 'agg':
                self.tags.add('target:agg')
                out.append(self.pick([f'max({c})', 'count(*)', f'sum({c})']) + f' AS c{len(out)}')
            elif kind == 'sub':
                self.tags.add('target:sub')
                out.append(self.scalar_sub() + (f' AS c{len(out)}' if self.chance(1, 2) else ''))
            elif kind == 'arith':
                out.append(f'({c} + 1) AS c{len(out)}')
            else:
                out.append(f'CASE WHEN {c} > 1 THEN 1 ELSE 0 END AS c{len(out)}')
        return ', '.join(out)

    def using(self, items):
        has_m = any(it[3] == 'M' for it in items)
        if not self.chance(1, 3) and not (has_m and self.chance(1, 3)):
            return ''
        opts = []
        if has_m and self.chance(3, 4) or self.chance(1, 8):
            opts.append(f'partition_size={self.pick([1, 10, 1000])}')
            self.tags.add('using:partition_size')
        for _ in range(self.draw(st.integers(0 if opts else 1, 2))):
            k = self.pick(['plain', 'plain', 'scoped', 'str'])
            if k == 'plain':
                opts.append(f'{self.pick(["a", "param3", "engine"])}={self.const()}')
            elif k == 'str':
                opts.append(f"{self.pick(['mode', 'param3'])}='{self.pick(['x', 'b'])}'")
            else:
                ms = [it for it in items if it[3] in 'MX'] or items
                opts.append(f"{self.pick(ms)[1]}.param{self.pick([1, 2])}='{self.pick(['a', 'b'])}'")
                self.tags.add('using:scoped')
        if self.chance(1, 2):
            order = self.draw(st.permutations(list(range(len(opts)))))
            opts = [opts[i] for i in order]
        self.tags.add('using')
        return ' USING ' + ', '.join(opts)

    def select(self, shape=None):
        """returns (sql, shape)"""
        shape = shape or self.pick(SHAPES)
        if shape == '?':
            shape = ' '.join(self.pick('TTTMMXSND') for _ in range(self.draw(st.integers(2, 4))))
            self.tags.add('shape:random')
        kinds = shape.split()
        items = []
        for k in kinds:
            # the table next to a time-series model is mostly t1 (whose columns the model's settings name)
            prefer = 't1' if ('X' in kinds and k == 'T' and self.chance(4, 5)) else None
            items.append(self.item(k, prefer))
        text = items[0][0]
        for i, it in enumerate(items[1:], 1):
            jk = self.pick(JOINS)
            if jk not in ('JOIN', 'LEFT JOIN'):
                self.tags.add('join:other')
            on = ''
            if self.chance(1, 2):
                left = self.pick(items[:i])
                on = f' ON {self.col(left)} = {self.col(it)}'
                self.tags.add('on')
                if self.chance(1, 5):
                    on += f' AND {self.col(it)} = {self.const()}'
                    self.tags.add('on:filter')
                if self.chance(1, 8):
                    on += f' AND {self.col(self.pick(items[:i]))} {self.pick([">", "="])} {self.col(it)}'
            text += f' {jk} {it[0]}{on}'
        if self.chance(1, 6):
            # the bare form: no outer query step is planned above the join
            self.tags.add('bare')
            return 'SELECT * FROM ' + text + self.using(items), shape
        sql = 'SELECT ' + ('DISTINCT ' if self.chance(1, 15) else '') + self.targets(items) + ' FROM ' + text
        sql += self.where(items)
        if self.chance(1, 15):
            self.tags.add('group')
            sql += f' GROUP BY {self.col(self.pick(items))}'
        if self.chance(1, 6) and ('X' not in kinds or self.chance(1, 4)):
            self.tags.add('order')
            oc = self.col(self.pick(items))
            form = self.pick(['col', 'col', 'col', 'position', 'function', 'arith', 'two'])
            if form == 'position':
                oc = '1'
            elif form == 'function':
                oc = f'abs({oc})'
            elif form == 'arith':
                oc = f'{oc} + {self.col(self.pick(items))}'
            elif form == 'two':
                oc = f'{oc}, {self.col(self.pick(items))} DESC'
            if form != 'col':
                self.tags.add('order:' + form)
            sql += f' ORDER BY {oc}{self.pick(["", " DESC"])}'
        if self.chance(1, 4):
            self.tags.add('limit')
            sql += f' LIMIT {self.pick([1, 2, 10])}'
            if self.chance(1, 4):
                self.tags.add('offset')
                sql += f' OFFSET {self.pick([1, 2])}'
        sql += self.using(items)
        return sql, shape

    def model_only(self):
        """SELECT from a model alone (row prediction)."""
        it = self.model_item(self.chance(1, 6))
        cols = ['x', 'a', 'b']
        atoms = []
        for _ in range(self.pick([0, 1, 1, 1, 2, 2, 3])):
            c = cols.pop(self.draw(st.integers(0, len(cols) - 1))) if self.chance(7, 8) else 'x'
            atoms.append(f'{c} = {self.const()}')
        if self.chance(1, 6):
            atoms.append(f'x = {self.scalar_sub()}')
        if self.chance(1, 10):
            atoms = ['1 = 0']
        w = ' WHERE ' + ' AND '.join(atoms) if atoms else ''
        tg = self.pick(['*', 'p', 'p, x', f'{it[1]}.p', 'p AS c0, 1'])
        return f'SELECT {tg} FROM {it[0]}{w}' + self.using([it])


def dml_wrap_text(g, sel, wrap):
    """Statement text of kind `wrap` around the SELECT text `sel`; g gives pick/chance and the catalog view."""
    tgt_t = g.pick(['t1', 't3', 't9'])
    tgt_q = g.pick(['int1', 'int2'])
    tgt = f'{tgt_q}.{tgt_t}'
    if wrap == 'plain':
        return sel
    if wrap == 'union':
        t = g.pick(['t2', 't4'])
        other = f'SELECT * FROM {g.pick(g.view["tables"][t])}'
        op = g.pick(['UNION', 'UNION ALL', 'INTERSECT', 'EXCEPT'])
        # options (USING) close a statement: keep the model select last
        return f'{other} {op} {sel}' if ' USING ' in sel or g.chance(1, 2) else f'{sel} {op} {other}'
    if wrap == 'insert':
        cols = ' (a, b)' if g.chance(1, 3) else ''
        return f'INSERT INTO {tgt}{cols} {sel}'
    if wrap == 'insert-paren':
        return f'INSERT INTO {tgt} ({sel})'
    if wrap == 'create':
        return f'CREATE TABLE {tgt} ({sel})'
    if wrap == 'create-replace':
        return f'CREATE OR REPLACE TABLE {tgt} ({sel})'
    if wrap == 'update-from':
        return f'UPDATE {tgt} SET a = df.a, b = df.p FROM ({sel}) AS df WHERE {tgt_t}.a = df.a'
    if wrap == 'nested':
        w = g.pick(['', ' WHERE o.a > 1', ' LIMIT 2', ' ORDER BY o.a'])
        tg = g.pick(['*', 'o.a', 'o.*', 'count(*)'])
        return f'SELECT {tg} FROM ({sel}) AS o{w}'
    if wrap == 'cte':
        w = g.pick(['', ' WHERE w.a > 1', ' LIMIT 2'])
        return f'WITH w0 AS ({sel}) SELECT * FROM w0 AS w{w}'
    if wrap == 'cte2':
        # two CTEs, the main query reads the one that is planned first: the other one (unused, or read by a
        #  sub-select only) must not end up as the plan's answer
        t = g.pick(['t3', 't2', 't4'])
        other = f'SELECT * FROM {g.pick(g.view["tables"][t])}'
        main = g.pick(['SELECT * FROM w0', 'SELECT * FROM w0 AS w WHERE w.a > 1',
                       'SELECT * FROM w0 WHERE a IN (SELECT a FROM w1)',
                       'SELECT * FROM (SELECT * FROM w0) AS s WHERE a IN (SELECT a FROM w1)',
                       'SELECT * FROM w0 JOIN w1 ON w0.a = w1.a'])
        return f'WITH w0 AS ({sel}), w1 AS ({other}) {main}'
    if wrap == 'where-in':
        t = g.pick(['t3', 't2'])
        return f'SELECT * FROM {g.pick(g.view["tables"][t])} WHERE a IN ({sel})'
    if wrap == 'delete-in':
        return f'DELETE FROM {tgt} WHERE a IN ({sel})' + (' AND b = 1' if g.chance(1, 3) else '')
    if wrap == 'target-sub':
        t = g.pick(['t3', 't2'])
        return f'SELECT a, ({sel}) AS c1 FROM {g.pick(g.view["tables"][t])}'
    raise AssertionError(wrap)


@st.composite
def model_queries(draw, cat, shape=None):
    """A statement with models: {'sql', 'meta': {'tags', 'shape', 'wrap'}}."""
    g = ModelQueryGen(draw, cat)
    if shape is None and _chance(draw, 1, 12):
        sel, shape_ = g.model_only(), 'M-only'
    else:
        sel, shape_ = g.select(shape)
    wrap = _pick(draw, WRAPS)
    sql = dml_wrap_text(g, sel, wrap)
    return {'sql': sql, 'meta': {'tags': sorted(g.tags), 'shape': shape_, 'wrap': wrap}}


class _G:
    def __init__(self, draw, cat):
        self.draw, self.view = draw, cat['view']

    def pick(self, xs):
        return _pick(self.draw, xs)

    def chance(self, a, b):
        return _chance(self.draw, a, b)


DML_WRAPS = ['insert', 'insert', 'insert-paren', 'create', 'create-replace', 'update-from', 'nested', 'where-in',
             'delete-in', 'target-sub']


@st.composite
def dml_wrap(draw, cat, select_sql, wraps=None):
    """(statement text, wrap kind): a DML / nesting statement around an arbitrary SELECT text."""
    wrap = _pick(draw, wraps or DML_WRAPS)
    return dml_wrap_text(_G(draw, cat), select_sql, wrap), wrap


@st.composite
def plain_dml(draw, cat):
    """DML / DDL statements that carry no SELECT: INSERT VALUES, UPDATE, DELETE with filters, CREATE TABLE (columns)."""
    g = _G(draw, cat)
    t = g.pick(['t1', 't3'])
    ref = g.pick(g.view['tables'][t])
    other = g.pick(g.view['tables'][g.pick(['t2', 't4'])])
    k = g.pick(['insert-values', 'update', 'update-sub', 'delete', 'delete-sub', 'delete-scalar', 'create-cols'])
    if k == 'insert-values':
        return f'INSERT INTO {ref} (a, b) VALUES (1, 2), (3, {g.pick([4, "null"])})', k
    if k == 'update':
        return f'UPDATE {ref} SET a = {g.pick([1, "a + 1"])}' + (' WHERE b = 2' if g.chance(1, 2) else ''), k
    if k == 'update-sub':
        return f'UPDATE {ref} SET a = 1 WHERE a IN (SELECT a FROM {other})', k
    if k == 'delete':
        return f'DELETE FROM {ref}' + (f' WHERE a = {g.pick([1, 2])} AND b > 0' if g.chance(2, 3) else ''), k
    if k == 'delete-sub':
        return f'DELETE FROM {ref} WHERE a {g.pick(["IN", "NOT IN"])} (SELECT a FROM {other} WHERE a > 1)', k
    if k == 'delete-scalar':
        return f'DELETE FROM {ref} WHERE a = (SELECT max(a) FROM {other}) AND b = 1', k
    return f'CREATE TABLE {ref}x (a int, b text)', k


# ------------------------------------------------------------------------- bounded-exhaustive part (no draws)

FIXED_CATALOGS = {
    'names-list': {
        'integrations': ['int1', 'int2'],
        'default_namespace': 'mindsdb',
        'predictor_metadata': [
            {'name': 'm1', 'integration_name': 'proj', 'to_predict': ['p']},
            {'name': 'm2', 'integration_name': 'proj'},
            {'name': 'ts0', 'integration_name': 'proj', 'timeseries': True, 'order_by_column': 'b',
             'group_by_columns': [], 'window': 2},
            {'name': 'ts1', 'integration_name': 'proj', 'timeseries': True, 'order_by_column': 'b',
             'group_by_columns': ['a'], 'window': 3, 'horizon': 2},
            {'name': 'ts2', 'integration_name': 'proj', 'timeseries': True, 'order_by_column': 'b',
             'group_by_columns': ['a', 's'], 'window': 1},
        ]},
    'dicts-legacy': {
        'integrations': [{'name': 'int1', 'class_type': 'sql', 'type': 'data'},
                         {'name': 'int2', 'class_type': 'api', 'type': 'data'},
                         {'name': 'proj', 'class_type': 'project', 'type': 'project'}],
        'default_namespace': 'proj',
        'predictor_namespace': 'proj',
        'predictor_metadata': {
            'm1': {'to_predict': 'p'},
            'm2': {},
            'ts0': {'timeseries': True, 'order_by_column': 'b', 'group_by_columns': None, 'window': 2},
            'ts1': {'timeseries': True, 'order_by_column': 'b', 'group_by_columns': ['s'], 'window': 3},
            'ts2': {'timeseries': True, 'order_by_column': 'b', 'group_by_columns': ['s', 'a'], 'window': 1,
                    'horizon': 1},
        }},
}
FIXED_VARIANTS = ['bare', 'part', 'where', 'where-part']
ALL_WRAPS = ['plain', 'union', 'insert', 'insert-paren', 'create', 'create-replace', 'update-from', 'nested', 'cte',
             'where-in', 'delete-in', 'target-sub', 'cte2']
_T = ['int1.t1', 'int2.t3', 'int1.t2', 'int2.t4']
_M = ['proj.m1', 'proj.m2']
_X = ['proj.ts1', 'proj.ts0', 'proj.ts2']
_S = ['(SELECT * FROM int1.t1 WHERE b > 1)', '(SELECT * FROM int2.t3)']
_N = ['int1 (select * from t1)', 'int2 (select * from t3)']
_D = [DATA_TABLE]


def all_shapes(max_len, kinds='TMXSND'):
    import itertools
    out = []
    for n in range(1, max_len + 1):
        out += [' '.join(p) for p in itertools.product(kinds, repeat=n)]
    return out


class _Fixed:
    """pick/chance for dml_wrap_text without draws: always the first alternative."""
    def __init__(self, view):
        self.view = view

    def pick(self, xs):
        return list(xs)[0]

    def chance(self, a, b):
        return False


def fixed_statement(shape, variant, wrap):
    """The canonical statement of a join shape (letters T M X S N D), a variant and a wrap -- no draws."""
    pools = {'T': _T, 'M': _M, 'X': _X, 'S': _S, 'N': _N, 'D': _D}
    pref = {'T': 'a', 'M': 'p', 'X': 'p', 'S': 'q', 'N': 'n', 'D': 'd'}
    seen = {}
    items = []
    for i, k in enumerate(shape.split(), 1):
        j = seen.get(k, 0)
        seen[k] = j + 1
        items.append((k, pools[k][j % len(pools[k])], f'{pref[k]}{i}'))
    on = variant.startswith('where')
    text = f'{items[0][1]} AS {items[0][2]}'
    for k, src, al in items[1:]:
        text += f' JOIN {src} AS {al}' + (f' ON {items[0][2]}.a = {al}.a' if on else '')
    if not on:
        sel = f'SELECT * FROM {text}'
    else:
        conds = []
        data = [it for it in items if it[0] in 'TSND']
        if data:
            conds.append(f'{data[0][2]}.a = 1')
        for k, src, al in items:
            if k == 'M':
                conds.append(f'{al}.x = 2')
        if any(k == 'X' for k, _, _ in items) and data:
            conds.append(f'{data[0][2]}.b > LATEST')
        sel = f'SELECT {items[0][2]}.a, {items[-1][2]}.a AS c1 FROM {text}'
        if conds:
            sel += ' WHERE ' + ' AND '.join(conds)
        sel += ' LIMIT 5'
    if variant.endswith('part'):
        sel += ' USING partition_size=10'
    view = {'tables': {t: [f'{q}.{t}'] for t, q in PLACES.items()}}
    return dml_wrap_text(_Fixed(view), sel, wrap)


@st.composite
def udf_queries(draw, cat):
    """SELECT over one table that calls user-defined functions (`my.fnc(...)`, `llm(...)`): the planner fetches the rows
    first and applies targets / aggregation / function filters in a step of its own."""
    g = _G(draw, cat)
    t = g.pick(['t1', 't1', 't3'])
    ref = g.pick(g.view['tables'][t])
    al = g.pick(['', '', ' AS u1'])
    q = 'u1.' if al else ''
    fn = g.pick(['my.fnc', 'my.fnc', 'proj.f2', "llm"])
    tgs = [f'{fn}({q}a, 1)' + g.pick(['', ' AS c0'])]
    if g.chance(1, 2):
        tgs.append(g.pick([f'{q}b', f'max({q}b) AS c1', 'count(*)', f'my.fnc2({q}b) AS c1']))
    if g.chance(1, 6):
        tgs = ['*']
    sql = f'SELECT {", ".join(tgs)} FROM {ref}{al}'
    conds = []
    if g.chance(1, 2):
        conds.append(f'{q}a {g.pick([">", "="])} my.fnc2({q}b)')
    if g.chance(1, 2):
        conds.append(f'{q}b = {g.pick([1, 2])}')
    if g.chance(1, 6):
        other = g.pick(g.view['tables'][g.pick(['t4', 't2'])])
        conds.append(f'{q}a IN (SELECT a FROM {other})')
    if conds:
        sql += ' WHERE ' + ' AND '.join(conds)
    if g.chance(1, 4):
        sql += f' GROUP BY {q}b' + (' HAVING count(*) > 1' if g.chance(1, 3) else '')
    if g.chance(1, 4):
        sql += f' ORDER BY {q}a'
    if g.chance(1, 4):
        sql += f' LIMIT {g.pick([1, 5])}'
    return sql
