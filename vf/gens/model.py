"""G-model: typed SQL over a fixed schema.  Produces SQL text that is well-typed for SQLite by construction,
together with the meta-data the execution oracles need (ordering columns, total order, feature tags).

Every compound operand is parenthesised in the text (parsing precedence is C03's subject, not the users' of this
generator).  All random choices are Hypothesis draws.
"""
from hypothesis import strategies as st

SCHEMA = {
    't1': [('a', 'int'), ('b', 'int'), ('s', 'text')],
    't2': [('a', 'int'), ('c', 'int')],
    't3': [('a', 'int'), ('d', 'int')],
    't4': [('a', 'int'), ('e', 'int')],
}
INT_DOMAIN = [None, 0, 1, 2, 3]
TEXT_DOMAIN = [None, 'x', 'y']
JOIN_KINDS = ['JOIN', 'INNER JOIN', 'LEFT JOIN', 'LEFT OUTER JOIN', 'RIGHT JOIN', 'FULL JOIN', 'FULL OUTER JOIN',
              'CROSS JOIN', ',']


class Cfg:
    def __init__(self, places=None, tables=None, always_alias=True, join_kinds=None, subselect_from=True,
                 subselect_where=True, subselect_target=True, correlated=True, setops=True, cte=True, window=True,
                 group=True, order=True, limit=True, limit_needs_total_order=True, distinct=True, division=True,
                 concat=True, case=True, cast=True, star=True, max_tables=3, qualifier_spelling=None,
                 exists=True, in_subselect=True, expr_depth=2, column_aliases=True, nulls_order=True,
                 scalar_functions=True, cross_place_subselect=True, shadow_aliases=(), qualified_columns=False,
                 extra_places=None, order_by_source=False, subselect_multi=True, concat_arith=False):
        self.places = places or {}            # table -> qualifier (integration) or None
        self.tables = tables or sorted(SCHEMA)
        self.always_alias = always_alias
        self.join_kinds = join_kinds or JOIN_KINDS
        self.subselect_from = subselect_from
        self.subselect_where = subselect_where
        self.subselect_target = subselect_target
        self.correlated = correlated
        self.setops = setops
        self.cte = cte
        self.window = window
        self.group = group
        self.order = order
        self.limit = limit
        self.limit_needs_total_order = limit_needs_total_order
        self.distinct = distinct
        self.division = division
        self.concat_arith = concat_arith      # `||` next to arithmetic (its rank differs between engines)
        self.concat = concat
        self.case = case
        self.cast = cast
        self.star = star
        self.max_tables = max_tables
        self.qualifier_spelling = qualifier_spelling    # None or callable(draw, qualifier) -> spelling
        self.exists = exists
        self.in_subselect = in_subselect
        self.expr_depth = expr_depth
        self.column_aliases = column_aliases
        self.nulls_order = nulls_order
        self.scalar_functions = scalar_functions
        self.cross_place_subselect = cross_place_subselect
        self.shadow_aliases = list(shadow_aliases)   # names sometimes used as table alias (e.g. the integration name)
        self.qualified_columns = qualified_columns   # un-aliased tables: refer to columns as int1.t1.a sometimes
        self.extra_places = extra_places or {}       # table -> [other integrations holding a table of the same name]
        self.order_by_source = order_by_source       # ORDER BY may name qualified source columns (not only aliases)
        self.subselect_multi = subselect_multi       # sub-selects in WHERE may have two FROM entries


class Gen:
    def __init__(self, draw, cfg):
        self.draw = draw
        self.cfg = cfg
        self.tags = set()
        self.n_alias = 0
        self.used_tables = []
        self.cte_names = {}       # name -> column list [(name, type)]

    # ---- helpers
    def pick(self, seq):
        seq = list(seq)
        if len(seq) == 1:
            return seq[0]
        return seq[self.draw(st.integers(0, len(seq) - 1))]

    def chance(self, num, den):
        return self.draw(st.integers(0, den - 1)) < num

    def new_alias(self, prefix='x'):
        self.n_alias += 1
        if prefix == 'x' and self.cfg.shadow_aliases and self.chance(1, 10):
            cand = [a for a in self.cfg.shadow_aliases if a not in getattr(self, '_used_shadow', set())]
            if cand:
                a = self.pick(cand)
                self._used_shadow = getattr(self, '_used_shadow', set()) | {a}
                self.tags.add('alias:shadows-qualifier')
                return a
        return f'{prefix}{self.n_alias}'

    def table_ref(self, t):
        q = self.cfg.places.get(t)
        extra = self.cfg.extra_places.get(t)
        if extra and self.chance(1, 2):
            q = self.pick(extra)
            self.tags.add('table:same-name-other-place')
        self.used_tables.append((q, t))
        if q is None:
            return t
        if self.cfg.qualifier_spelling:
            q = self.cfg.qualifier_spelling(self.draw, q)
        return f'{q}.{t}'

    # ---- scope: list of (alias or None, [(col, type)])
    def cols(self, scope, typ):
        out = []
        for alias, cols in scope:
            for c, t in cols:
                if t == typ:
                    out.append(f'{alias}.{c}' if alias else c)
        return out

    # ---- expressions
    def int_expr(self, scope, depth):
        cols = self.cols(scope, 'int')
        leafs = ['col'] * 3 + ['const'] if cols else ['const']
        if depth <= 0:
            kind = self.pick(leafs)
        else:
            kinds = leafs + ['arith', 'arith', 'neg']
            if self.cfg.case:
                kinds.append('case')
            if self.cfg.scalar_functions:
                kinds += ['coalesce', 'abs']
            if self.cfg.cast:
                kinds.append('cast')
            kind = self.pick(kinds)
        if kind == 'col':
            return self.pick(cols)
        if kind == 'const':
            return str(self.pick([0, 1, 2, 3, 5]))
        if kind == 'arith':
            ops = ['+', '-', '*']
            if self.cfg.division:
                ops += ['/', '%']
            op = self.pick(ops)
            if op in '/%':
                self.tags.add('op:div')
            self.tags.add('op:arith')
            if self.chance(1, 4):
                # an operator of the same rank on the right: the grouping that associativity does not give for free
                op2 = self.pick([o for o in ops if (o in '+-') == (op in '+-')])
                self.tags.add('op:right-nested')
                return f'({self.int_expr(scope, depth - 1)} {op} ({self.int_expr(scope, 0)} {op2} {self.int_expr(scope, 0)}))'
            return f'({self.int_expr(scope, depth - 1)} {op} {self.int_expr(scope, depth - 1)})'
        if kind == 'neg':
            self.tags.add('op:neg')
            return f'(- {self.int_expr(scope, depth - 1)})'
        if kind == 'case':
            self.tags.add('case')
            if self.chance(1, 2):
                return (f'(CASE WHEN {self.bool_expr(scope, depth - 1)} THEN {self.int_expr(scope, depth - 1)} '
                        f'ELSE {self.int_expr(scope, depth - 1)} END)')
            self.tags.add('case:simple')
            return (f'(CASE {self.int_expr(scope, 0)} WHEN {self.pick([0, 1, 2])} THEN {self.int_expr(scope, depth - 1)} '
                    f'WHEN {self.pick([1, 2, 3])} THEN {self.int_expr(scope, 0)} ELSE {self.int_expr(scope, 0)} END)')
        if kind == 'coalesce':
            self.tags.add('func')
            return f'coalesce({self.int_expr(scope, depth - 1)}, {self.int_expr(scope, 0)})'
        if kind == 'abs':
            self.tags.add('func')
            return f'abs({self.int_expr(scope, depth - 1)})'
        if kind == 'cast':
            self.tags.add('cast')
            return f'CAST({self.int_expr(scope, depth - 1)} AS integer)'
        raise AssertionError(kind)

    def text_expr(self, scope, depth):
        cols = self.cols(scope, 'text')
        kinds = (['col'] * 3 if cols else []) + ['const']
        if depth > 0:
            if self.cfg.scalar_functions:
                kinds += ['upper', 'coalesce']
            if self.cfg.concat:
                kinds.append('concat')
                if self.cfg.concat_arith:
                    kinds.append('concat-arith')
        kind = self.pick(kinds)
        if kind == 'concat-arith':
            self.tags.add('op:concat-arith')
            ar = f'({self.int_expr(scope, 0)} {self.pick(["+", "-", "*"])} {self.int_expr(scope, 0)})'
            if self.chance(1, 2):
                return f'({self.text_expr(scope, 0)} || {ar})'
            return f'({ar} || {self.text_expr(scope, 0)})'
        if kind == 'col':
            return self.pick(cols)
        if kind == 'const':
            return "'" + self.pick(['x', 'y', 'z', 'X']) + "'"
        if kind == 'upper':
            self.tags.add('func')
            return f'{self.pick(["upper", "lower"])}({self.text_expr(scope, depth - 1)})'
        if kind == 'coalesce':
            self.tags.add('func')
            return f'coalesce({self.text_expr(scope, depth - 1)}, {self.text_expr(scope, 0)})'
        if kind == 'concat':
            self.tags.add('op:concat')
            return f'({self.text_expr(scope, depth - 1)} || {self.text_expr(scope, 0)})'
        raise AssertionError(kind)

    def colref(self, scope, typ='int'):
        """an expression of the given type that is guaranteed to mention a column (None if the scope has none)"""
        cols = self.cols(scope, typ)
        return self.pick(cols) if cols else None

    def with_col(self, expr, scope, typ='int'):
        """expr itself when it mentions a column, otherwise a column of the scope (constant-only atoms are not
        generated: SQLite 3.40 mis-evaluates constant-false join terms next to RIGHT JOIN, so they would make the
        reference engine unreliable)"""
        import re as _re
        if _re.search(r'[A-Za-z_][A-Za-z_0-9]*\.[A-Za-z_]', expr) or not scope:
            return expr
        c = self.colref(scope, typ) or self.colref(scope, 'int')
        return c if c is not None else expr

    def bool_expr(self, scope, depth, allow_sub=True):
        kinds = ['cmp', 'cmp', 'cmp', 'isnull', 'in', 'between', 'textcmp', 'like']
        if not self.cols(scope, 'text'):
            kinds = ['cmp', 'cmp', 'cmp', 'isnull', 'in', 'between']
        if depth > 0:
            kinds += ['and', 'and', 'or', 'not']
            if allow_sub and self.cfg.subselect_where:
                if self.cfg.in_subselect:
                    kinds.append('insub')
                if self.cfg.exists:
                    kinds.append('exists')
                kinds.append('scalarsub')
        kind = self.pick(kinds)
        if kind == 'cmp' and self.cols(scope, 'int') and self.chance(1, 6):
            # constant on the left: `15 < x.price`
            op = self.pick(['=', '!=', '<', '<=', '>', '>='])
            self.tags.add('cmp:const-first')
            return f'({self.pick([0, 1, 2, 3])} {op} {self.pick(self.cols(scope, "int"))})'
        if kind == 'cmp':
            op = self.pick(['=', '!=', '<>', '<', '<=', '>', '>='])
            return f'({self.with_col(self.int_expr(scope, depth - 1), scope)} {op} {self.int_expr(scope, depth - 1)})'
        if kind == 'textcmp':
            return (f'({self.with_col(self.text_expr(scope, depth - 1), scope, "text")} {self.pick(["=", "!=", "<"])} '
                    f'{self.text_expr(scope, 0)})')
        if kind == 'like':
            self.tags.add('like')
            neg = 'NOT ' if self.chance(1, 3) else ''
            return f"({self.with_col(self.text_expr(scope, 0), scope, 'text')} {neg}LIKE '{self.pick(['x%', '%', 'y', '_'])}')"
        if kind == 'isnull' and self.cols(scope, 'int') and self.chance(1, 4):
            # truth tests: NULL passes IS NOT TRUE / IS NOT FALSE, and any non-zero number IS TRUE
            self.tags.add('istruth')
            return f'({self.pick(self.cols(scope, "int"))} IS {"NOT " if self.chance(1, 2) else ""}{self.pick(["TRUE", "FALSE"])})'
        if kind == 'isnull':
            self.tags.add('isnull')
            if self.chance(2, 3) or not self.cols(scope, 'text'):
                e = self.with_col(self.int_expr(scope, 0), scope)
            else:
                e = self.with_col(self.text_expr(scope, 0), scope, 'text')
            return f'({e} IS {"NOT " if self.chance(1, 2) else ""}NULL)'
        if kind == 'in':
            self.tags.add('in')
            neg = 'NOT ' if self.chance(1, 3) else ''
            n = self.draw(st.integers(1, 3))
            items = ', '.join(str(self.pick([0, 1, 2, 3])) for _ in range(n))
            return f'({self.with_col(self.int_expr(scope, depth - 1), scope)} {neg}IN ({items}))'
        if kind == 'between':
            self.tags.add('between')
            return (f'({self.with_col(self.int_expr(scope, depth - 1), scope)} BETWEEN {self.pick([0, 1])} '
                    f'AND {self.pick([1, 2, 3])})')
        if kind == 'and':
            return f'({self.bool_expr(scope, depth - 1, allow_sub)} AND {self.bool_expr(scope, depth - 1, allow_sub)})'
        if kind == 'or':
            self.tags.add('or')
            return f'({self.bool_expr(scope, depth - 1, allow_sub)} OR {self.bool_expr(scope, depth - 1, allow_sub)})'
        if kind == 'not':
            self.tags.add('not')
            return f'(NOT {self.bool_expr(scope, depth - 1, allow_sub)})'
        if kind == 'insub':
            self.tags.add('sub:in')
            neg = 'NOT ' if self.chance(1, 3) else ''
            sub = self.simple_subselect(scope, 'int', correlated=False)
            return f'({self.with_col(self.int_expr(scope, 0), scope)} {neg}IN ({sub}))'
        if kind == 'exists':
            self.tags.add('sub:exists')
            neg = 'NOT ' if self.chance(1, 3) else ''
            sub = self.simple_subselect(scope, 'int', correlated=self.cfg.correlated, star=True)
            return f'({neg}EXISTS ({sub}))'
        if kind == 'scalarsub':
            self.tags.add('sub:scalar')
            sub = self.agg_subselect(scope)
            return f'({self.with_col(self.int_expr(scope, 0), scope)} {self.pick(["=", "<", ">="])} ({sub}))'
        raise AssertionError(kind)

    def sub_tables(self):
        return self.cfg.tables

    def simple_subselect(self, outer, typ, correlated=False, star=False):
        t = self.pick(self.sub_tables())
        al = self.new_alias('s')
        scope = [(al, SCHEMA[t])]
        second = ''
        if self.cfg.subselect_multi and self.chance(1, 4):
            # a second FROM entry; un-aliased when the config allows un-aliased tables (it then shadows an outer
            # table of the same name)
            t2 = self.pick(self.sub_tables())
            self.tags.add('sub:two-tables')
            shadow = [a for a, _ in outer if a in SCHEMA and a in self.sub_tables()]
            if not self.cfg.always_alias and shadow and self.chance(2, 3):
                # repeat, un-aliased, a table that is un-aliased in the enclosing query: the inner one shadows it
                t2 = self.pick(shadow)
                ref2, second = t2, f', {self.table_ref(t2)}'
                self.tags.add('sub:unaliased-table')
                self.tags.add('sub:shadows-outer-table')
            elif not self.cfg.always_alias and self.chance(1, 2):
                ref2, second = t2, f', {self.table_ref(t2)}'
                self.tags.add('sub:unaliased-table')
            else:
                ref2 = self.new_alias('s')
                second = f', {self.table_ref(t2)} AS {ref2}'
            scope = scope + [(ref2, SCHEMA[t2])]
        col = self.pick(self.cols(scope[:1], 'int'))
        where = ''
        if self.chance(2, 3):
            sc = scope + (outer if correlated and self.chance(1, 2) else [])
            if sc is not scope:
                self.tags.add('sub:correlated')
            where = ' WHERE ' + self.bool_expr(sc, 1, allow_sub=False)
        tgt = '*' if star and self.chance(1, 2) and not second else col
        return f'SELECT {tgt} FROM {self.table_ref(t)} AS {al}{second}{where}'

    def agg_subselect(self, outer):
        t = self.pick(self.sub_tables())
        al = self.new_alias('s')
        scope = [(al, SCHEMA[t])]
        col = self.pick(self.cols(scope, 'int'))
        fn = self.pick(['max', 'min', 'count', 'sum'])
        where = ''
        if self.chance(1, 2):
            where = ' WHERE ' + self.bool_expr(scope, 1, allow_sub=False)
        return f'SELECT {fn}({col}) FROM {self.table_ref(t)} AS {al}{where}'

    # ---- FROM
    def from_clause(self, depth):
        """returns (text, scope)"""
        cfg = self.cfg
        n = self.draw(st.integers(1, cfg.max_tables))
        items = []
        scope = []
        for i in range(n):
            kind = 'table'
            if depth > 0 and cfg.subselect_from and self.chance(1, 5):
                kind = 'sub'
            elif self.cte_names and self.chance(1, 3):
                kind = 'cte'
            if kind == 'table':
                t = self.pick(cfg.tables)
                need_alias = cfg.always_alias or self.chance(1, 2) or any(sc[0] == t for _, sc in items)
                al = self.new_alias('x') if need_alias else None
                txt = self.table_ref(t) + (f' AS {al}' if al and self.chance(3, 4) else (f' {al}' if al else ''))
                ref = al or t
                if not al and cfg.qualified_columns and cfg.places.get(t) and self.chance(1, 2):
                    ref = f'{cfg.places[t]}.{t}'
                    self.tags.add('col:3-part')
                scope_item = (ref, SCHEMA[t])
            elif kind == 'cte':
                name = self.pick(sorted(self.cte_names))
                al = self.new_alias('x')
                txt = f'{name} AS {al}'
                scope_item = (al, self.cte_names[name])
                self.tags.add('cte:used')
            else:
                self.tags.add('sub:from')
                al = self.new_alias('q')
                sub, types, _ = self.select(depth - 1, top=False)
                txt = f'({sub}) AS {al}'
                scope_item = (al, [(f'c{k}', t) for k, t in enumerate(types)])
            items.append((txt, scope_item))
        text = items[0][0]
        scope.append(items[0][1])
        explicit = [k for k in cfg.join_kinds if k != ',']
        implicit_all = ',' in cfg.join_kinds and n > 1 and self.chance(1, 5)
        for txt, sc in items[1:]:
            # the grammar does not mix implicit (comma) and explicit joins in one FROM
            jk = ',' if implicit_all else self.pick(explicit)
            self.tags.add('join:' + jk)
            scope_after = scope + [sc]
            if jk == ',':
                text = f'{text}, {txt}'
            elif jk == 'CROSS JOIN':
                text = f'{text} CROSS JOIN {txt}'
            else:
                cond = self.join_cond(scope, sc)
                text = f'{text} {jk} {txt} ON {cond}'
            scope = scope_after
        return text, scope

    def join_cond(self, left_scope, right_item):
        lcols = self.cols(left_scope, 'int')
        rcols = self.cols([right_item], 'int')
        k = self.pick(['eq', 'eq', 'eq', 'eq+filter', 'ineq', 'or'])
        eq = f'({self.pick(lcols)} = {self.pick(rcols)})'
        if k == 'eq':
            return eq
        if k == 'eq+filter':
            self.tags.add('on:filter')
            side = [right_item] if self.chance(1, 2) else left_scope
            return f'({eq} AND {self.bool_expr(side, 0, allow_sub=False)})'
        if k == 'ineq':
            self.tags.add('on:ineq')
            return f'({self.pick(lcols)} {self.pick(["<", ">=", "!="])} {self.pick(rcols)})'
        self.tags.add('on:or')
        return f'({eq} OR ({self.pick(lcols)} = {self.pick(rcols)}))'

    # ---- SELECT
    def select(self, depth, top=True, types=None, allow_order=True):
        """returns (sql, out_types, meta)"""
        cfg = self.cfg
        ftext, scope = self.from_clause(depth)
        grouped = cfg.group and types is None and self.chance(1, 5)
        targets, out_types = [], []
        order_meta, total_order, has_limit = [], False, False
        if grouped:
            self.tags.add('group')
            gcols = []
            allc = self.cols(scope, 'int') + self.cols(scope, 'text')
            for _ in range(self.draw(st.integers(1, 2))):
                c = self.pick(allc)
                if c not in gcols:
                    gcols.append(c)
            for c in gcols:
                targets.append(c)
                out_types.append('text' if c in self.cols(scope, 'text') else 'int')
            for _ in range(self.draw(st.integers(1, 2))):
                fn = self.pick(['count', 'sum', 'min', 'max', 'count_star', 'count_distinct'])
                ic = self.pick(self.cols(scope, 'int'))
                if fn == 'count_star':
                    targets.append('count(*)')
                elif fn == 'count_distinct':
                    self.tags.add('agg:distinct')
                    targets.append(f'count(DISTINCT {ic})')
                else:
                    targets.append(f'{fn}({ic})')
                out_types.append('int')
        else:
            want = types or [self.pick(['int', 'int', 'text', 'bool']) for _ in range(self.draw(st.integers(1, 3)))]
            if types is None and not top:
                want[0] = 'int'     # sub-selects always expose an int column (join conditions need one)
            for t in want:
                if t == 'int':
                    if cfg.subselect_target and depth > 0 and self.chance(1, 12):
                        self.tags.add('sub:target')
                        targets.append('(' + self.agg_subselect(scope) + ')')
                    elif cfg.window and types is None and self.chance(1, 10):
                        self.tags.add('window')
                        ic = self.pick(self.cols(scope, 'int'))
                        pc = self.pick(self.cols(scope, 'int'))
                        wk = self.pick(['sum_part', 'count_part', 'rank', 'sum_order'])
                        if wk == 'sum_part':
                            targets.append(f'sum({ic}) OVER (PARTITION BY {pc})')
                        elif wk == 'count_part':
                            targets.append(f'count({ic}) OVER (PARTITION BY {pc})')
                        elif wk == 'rank':
                            dr = self.pick(['', ' ASC', ' DESC'])
                            if dr.strip() == 'DESC':
                                self.tags.add('window:desc')
                            if cfg.nulls_order and self.chance(1, 3):
                                dr += self.pick([' NULLS FIRST', ' NULLS LAST'])
                                self.tags.add('window:nulls')
                            targets.append(f'rank() OVER (ORDER BY {ic}{dr})')
                        else:
                            # running sum over peers: deterministic under ties (RANGE frame is the default)
                            dr = self.pick(['', ' DESC'])
                            if dr.strip() == 'DESC':
                                self.tags.add('window:desc')
                            targets.append(f'sum({ic}) OVER (PARTITION BY {pc} ORDER BY {ic}{dr})')
                    else:
                        targets.append(self.int_expr(scope, cfg.expr_depth))
                elif t == 'text':
                    targets.append(self.text_expr(scope, 1))
                else:
                    targets.append(self.bool_expr(scope, 1, allow_sub=False))
                out_types.append('int' if t == 'bool' else t)
        src_order = None
        if cfg.order_by_source and top and not grouped and types is None and self.chance(1, 4):
            ic = self.pick(self.cols(scope, 'int'))
            targets.append(ic)
            out_types.append('int')
            src_order = (len(targets) - 1, ic)
        # aliases: c0..cn (always for non-column targets, so that ORDER BY and outer scopes can name them)
        tt = []
        for k, t in enumerate(targets):
            tt.append(f'{t} AS c{k}')
        star = False
        if cfg.star and types is None and not grouped and top and self.chance(1, 12):
            star = True
            self.tags.add('star')
            al = scope[0][0]
            if len(scope) == 1 and self.chance(1, 2):
                tt = ['*']
                out_types = [t for _, t in scope[0][1]]
            else:
                tt = [f'{al}.*']
                out_types = [t for _, t in scope[0][1]]
        distinct = cfg.distinct and self.chance(1, 6)
        if distinct:
            self.tags.add('distinct')
        sql = 'SELECT ' + ('DISTINCT ' if distinct else '') + ', '.join(tt) + ' FROM ' + ftext
        if self.chance(3, 5):
            self.tags.add('where')
            sql += ' WHERE ' + self.bool_expr(scope, cfg.expr_depth)
        if grouped:
            sql += ' GROUP BY ' + ', '.join(gcols)
            if self.chance(1, 3):
                self.tags.add('having')
                sql += f' HAVING (count(*) {self.pick([">", ">=", "="])} {self.pick([0, 1, 2])})'
        sql_nolimit = None
        if cfg.order and allow_order and not star and (top or self.chance(1, 4)) and self.chance(1, 2):
            self.tags.add('order')
            n = len(out_types)
            total = self.chance(1, 2)
            idx = list(range(n))
            if not total:
                idx = [i for i in idx if self.chance(1, 2)] or [0]
            terms = []
            if src_order is not None and not distinct:
                # order by the qualified source column first (its value is also output as c<k>)
                k, ic = src_order
                dr = self.pick(['', ' DESC'])
                terms.append(f'{ic}{dr}')
                order_meta.append(k)
                idx = [i for i in idx if i != k]
                if self.chance(1, 2):
                    idx = []            # order by that source column only
                self.tags.add('order:source-column')
            for i in idx:
                dr = self.pick(['', ' ASC', ' DESC'])
                nl = ''
                if cfg.nulls_order and self.chance(1, 4):
                    nl = self.pick([' NULLS FIRST', ' NULLS LAST'])
                    self.tags.add('order:nulls')
                if dr.strip() == 'DESC':
                    self.tags.add('order:desc')
                terms.append(f'c{i}{dr}{nl}')
                order_meta.append(i)
            sql += ' ORDER BY ' + ', '.join(terms)
            total_order = len(order_meta) == n
            if cfg.limit and (total_order or not cfg.limit_needs_total_order) and self.chance(1, 2):
                has_limit = True
                self.tags.add('limit')
                sql_nolimit = sql
                if not total_order:
                    self.tags.add('limit:partial-order')
                sql += f' LIMIT {self.pick([0, 1, 2, 3])}'
                if self.chance(1, 3):
                    self.tags.add('offset')
                    sql += f' OFFSET {self.pick([0, 1, 2])}'
        elif cfg.limit and not cfg.limit_needs_total_order and top and self.chance(1, 6):
            has_limit = True
            self.tags.add('limit')
            self.tags.add('limit:unordered')
            sql_nolimit = sql
            sql += f' LIMIT {self.pick([1, 2, 3])}'
        meta = {'order_cols': order_meta, 'total_order': total_order, 'limit': has_limit}
        if has_limit and top:
            meta['sql_unlimited'] = sql_nolimit
        return sql, out_types, meta

    def query(self, depth=2):
        """top-level query: optional CTEs, optional set operation"""
        cfg = self.cfg
        prefix = ''
        if cfg.cte and self.chance(1, 8):
            self.tags.add('cte')
            n = self.draw(st.integers(1, 2))
            parts = []
            for i in range(n):
                name = f'cte{i}'
                sub, types, _ = self.select(depth - 1, top=False, allow_order=False)
                parts.append(f'{name} AS ({sub})')
                self.cte_names[name] = [(f'c{k}', t) for k, t in enumerate(types)]
            prefix = 'WITH ' + ', '.join(parts) + ' '
        if cfg.setops and self.chance(1, 8):
            op = self.pick(['UNION', 'UNION ALL', 'INTERSECT', 'EXCEPT'])
            self.tags.add('setop:' + op)
            left, types, _ = self.select(depth - 1, top=False, allow_order=False)
            want = ['int' if t == 'int' else t for t in types]
            right, _, _ = self.select(depth - 1, top=False, types=want, allow_order=False)
            sql = f'{left} {op} {right}'
            if self.chance(1, 3):
                # a chain: set operations group from the left, whatever the operators
                op2 = self.pick(['UNION', 'UNION ALL', 'INTERSECT', 'EXCEPT'])
                third, _, _ = self.select(depth - 1, top=False, types=want, allow_order=False)
                sql += f' {op2} {third}'
                self.tags.add('setop:chain')
                self.tags.add('setop:' + op2)
            meta = {'order_cols': [], 'total_order': False, 'limit': False}
            if cfg.order and cfg.column_aliases and self.chance(1, 3):
                # ORDER BY [LIMIT] after a set operation belongs to the whole compound; ordering by every output
                # column makes the result (and what LIMIT keeps) unique up to identical rows
                self.tags.add('setop:trailing-order')
                keys = [f'c{i}' for i in range(len(types))]
                if self.chance(1, 3):
                    keys[0] += ' DESC'
                sql += ' ORDER BY ' + ', '.join(keys)
                meta = {'order_cols': list(range(len(types))), 'total_order': True, 'limit': False}
                if cfg.limit and self.chance(1, 2):
                    self.tags.add('setop:trailing-limit')
                    self.tags.add('limit')
                    meta['limit'] = True
                    meta['sql_unlimited'] = prefix + sql
                    sql += f' LIMIT {self.pick([1, 2, 3])}'
            return prefix + sql, types, meta
        sql, types, meta = self.select(depth, top=True)
        if meta.get('sql_unlimited'):
            meta['sql_unlimited'] = prefix + meta['sql_unlimited']
        return prefix + sql, types, meta


@st.composite
def queries(draw, cfg, depth=2):
    g = Gen(draw, cfg)
    sql, types, meta = g.query(depth)
    meta = dict(meta)
    meta['tags'] = sorted(g.tags)
    meta['tables'] = sorted({f'{q}.{t}' if q else t for q, t in g.used_tables})
    meta['places'] = sorted({q for q, t in g.used_tables if q})
    meta['types'] = types
    return {'sql': sql, 'meta': meta}


@st.composite
def table_data(draw, tables=None, max_rows=4, min_rows=0):
    """{table: rows} over the tiny domains (NULLs, duplicates, empty tables frequent)."""
    out = {}
    for t in (tables or sorted(SCHEMA)):
        n = draw(st.integers(min_rows, max_rows))
        rows = []
        for _ in range(n):
            row = []
            for c, typ in SCHEMA[t.split('.')[-1]]:     # a key may be 'int2.t1': table t1 held by integration int2
                dom = INT_DOMAIN if typ == 'int' else TEXT_DOMAIN
                row.append(dom[draw(st.integers(0, len(dom) - 1))])
            rows.append(row)
        out[t] = rows
    return out


def engine_tables(data, places=None):
    """{(db, table): (columns, rows)} for vf.oracles.engine.connect"""
    out = {}
    for t, rows in data.items():
        if '.' in t:
            db, t = t.split('.', 1)
        else:
            db = (places or {}).get(t)
        out[(db, t)] = ([c for c, _ in SCHEMA[t]], [tuple(r) for r in rows])
    return out
