"""C09 helper: *histories* -- several statements planned by ONE QueryPlanner object.

The property speaks about every emitted plan; a caller (a session) keeps one planner and hands it one statement after
the other, either `planner.from_query(tree)` or `prepare_steps(tree)` + `execute_steps(values)` (any number of times).
Whatever the planner remembers between statements (results of CTEs, of nested selects, the prepared statement, the open
partition, ...) must not leak into a later plan as a reference to a step that this plan does not have.

A history is a list of operations (JSON):
    {'op': 'plan', 'sql': text}          planner.from_query(parse(text))              -> a plan
    {'op': 'prepare', 'sql': text}       planner.prepare_steps(parse(text)), driven with a fake executor's answers
    {'op': 'exec', 'v': [values]}        planner.execute_steps(values) of the last prepared statement -> a plan
Every statement is parsed afresh (a tree that an earlier planning has rewritten is not an input of the property).

What makes a later plan go wrong is *shared text* between the statements: the same nested select / the same CTE name /
the same aliases / the whole statement once more.  So
  * `fixed_histories(tier)`: a list of statements that carry the same IN / scalar sub-select in every position where the
    planner plans nested selects itself (other integration, model join, time-series join, DML, targets, set operation,
    CTE body, sub-select in FROM, api integration) -- all ordered pairs x 4 history forms x fixed catalogs;
  * `histories(cat)`: Hypothesis -- 2..4 statements from the text templates of vf.gens.catalogs / c09_part whose nested
    selects come from a small pool drawn once per history, statements repeated verbatim, some planned and some prepared
    (with drawn constants turned into placeholders) and executed once or twice.
"""
import copy, re
from hypothesis import strategies as st
from vf.gens import catalogs, model, c09_part

# --------------------------------------------------------------------------------------------- fake executor

COLS = [{'name': c, 'type': 'int'} for c in ('a', 'b', 'c', 'd', 'e', 'p', 'x', 'y', 'z')] + \
       [{'name': 's', 'type': 'str'}] + [{'name': f'c{i}', 'type': 'str'} for i in range(0, 10)]


def answer(step):
    """What an executor answers to the column-discovery steps of prepare_steps (as the repository's FakeExecutor)."""
    cn = type(step).__name__
    if cn == 'GetTableColumns':
        key = ('int', step.table, step.table)
        return {'values': [], 'columns': {key: copy.deepcopy(COLS)}, 'tables': [key]}
    if cn == 'GetPredictorColumns':
        name = step.predictor.parts[-1]
        key = ('int', name, name)
        return {'values': [], 'columns': {key: copy.deepcopy(COLS)}, 'tables': [key]}
    return None


def drive_prepare(planner, tree):
    for step in planner.prepare_steps(tree):
        step.set_result(answer(step))


# --------------------------------------------------------------------------------------------- fixed histories

IN_SUB = '(SELECT a FROM int2.t3)'
SC_SUB = '(SELECT max(a) FROM int2.t4)'
# {v}: a constant of the statement (1 when planned, ? when prepared)
TEMPLATES = [
    ('sel-in', 'SELECT * FROM int1.t1 WHERE b = {v} AND a IN ' + IN_SUB),
    ('sel-scalar', 'SELECT * FROM int1.t2 WHERE a = ' + SC_SUB),
    ('sel-both', 'SELECT * FROM int1.t1 WHERE a IN ' + IN_SUB + ' AND b > ' + SC_SUB + ' AND b < {v}'),
    ('target', 'SELECT a, ' + SC_SUB + ' AS c1 FROM int1.t1 WHERE b = {v}'),
    ('join-model', 'SELECT * FROM int1.t1 AS a1 JOIN proj.m1 AS p2 WHERE a1.a IN ' + IN_SUB + ' AND a1.b > {v}'),
    ('join-model-part', 'SELECT * FROM int1.t1 AS a1 JOIN proj.m1 AS p2 JOIN proj.m2 AS p3 WHERE a1.a IN ' + IN_SUB +
     ' AND p2.x = ' + SC_SUB + ' USING p2.partition_size=10'),
    ('join-ts', 'SELECT * FROM int1.t1 AS a1 JOIN proj.ts1 AS p2 WHERE a1.a = ' + SC_SUB + ' AND a1.b > LATEST'),
    ('join-tables', 'SELECT * FROM int1.t1 AS a1 JOIN int2.t4 AS a2 ON a1.a = a2.a WHERE a1.b = ' + SC_SUB +
     ' AND a2.a IN ' + IN_SUB),
    ('model-row', 'SELECT * FROM proj.m1 WHERE x = ' + SC_SUB + ' AND a = {v}'),
    ('delete', 'DELETE FROM int1.t1 WHERE a IN ' + IN_SUB + ' AND b = {v}'),
    ('update', 'UPDATE int1.t1 SET b = {v} WHERE a IN ' + IN_SUB),
    ('insert', 'INSERT INTO int1.t9 SELECT * FROM int1.t2 WHERE a IN ' + IN_SUB),
    ('create', 'CREATE TABLE int1.t9 (SELECT * FROM int1.t2 WHERE a = ' + SC_SUB + ')'),
    ('union', 'SELECT a FROM int1.t2 WHERE a = ' + SC_SUB + ' UNION SELECT a FROM int1.t1 WHERE a IN ' + IN_SUB),
    ('cte', 'WITH w0 AS (SELECT * FROM int1.t1 WHERE a IN ' + IN_SUB + ') SELECT * FROM w0 JOIN int2.t4 AS a2 '
            'ON w0.a = a2.a WHERE a2.a > {v}'),
    ('cte-name-as-table', 'SELECT * FROM w0 JOIN int2.t4 AS a2 ON w0.a = a2.a WHERE w0.a IN ' + IN_SUB),
    ('from-sub', 'SELECT * FROM (SELECT * FROM int1.t1 WHERE a IN ' + IN_SUB + ') AS q1 JOIN proj.m1 AS p2 '
                 'WHERE q1.b = {v}'),
    ('api', 'SELECT * FROM int2.t3 WHERE a IN (SELECT a FROM int2.t3) AND d = ' + SC_SUB),
    ('no-sub', 'SELECT * FROM int1.t1 AS a1 JOIN int2.t3 AS a2 ON a1.a = a2.a WHERE a1.b = {v}'),
]
FORMS = ['plan;plan', 'prep-exec;prep-exec-exec', 'plan;prep-exec-exec', 'prep-exec;plan', 'plan;plan;plan']


def _ops(form, a, b):
    def text(t, prepared):
        return t.replace('{v}', '?' if prepared else '1')

    def vals(t, k):
        return [k + i for i in range(t.count('{v}'))]

    ops = []
    parts = form.split(';')
    for which, part in zip([a, b, a], parts):
        if part == 'plan':
            ops.append({'op': 'plan', 'sql': text(which, False)})
        else:
            # a statement without a constant is prepared as it is (no placeholders) and executed without values
            ops.append({'op': 'prepare', 'sql': text(which, True)})
            for k, _ in enumerate(part.split('-')[1:]):
                ops.append({'op': 'exec', 'v': vals(which, 1 + 5 * k)})
    return ops


def fixed_histories(tier):
    """All ordered pairs (A, B) of TEMPLATES (A == B included) x FORMS on the first fixed catalog; on the second one
    (legacy metadata, int2 an api integration, models in the default namespace) the forms plan;plan and
    prep-exec;prep-exec-exec (thorough: all)."""
    for cname in ('names-list', 'dicts-legacy'):
        forms = FORMS if (cname == 'names-list' or tier != 'quick') else FORMS[:2]
        for (na, a) in TEMPLATES:
            for (nb, b) in TEMPLATES:
                for form in forms:
                    yield {'src': 'fixed-hist', 'catalog': catalogs.FIXED_CATALOGS[cname], 'ops': _ops(form, a, b),
                           'meta': {'form': form, 'pair': [na, nb], 'tags': [], 'cat_tags': ['fixed:' + cname]}}


# --------------------------------------------------------------------------------------------- random histories

class _SharedSubs:
    """Mixin for the text-template generators: nested selects mostly come from the history's pool, and a statement that
    has a data item gets a pooled IN sub-select more often than the plain templates give one."""
    pool = None

    def in_sub(self):
        if self.pool and self.chance(3, 4):
            self.tags.add('where:in-sub')
            self.tags.add('hist:pool-sub')
            return self.pick(self.pool['in'])
        return super().in_sub()

    def scalar_sub(self):
        if self.pool and self.chance(3, 4):
            self.tags.add('where:scalar-sub')
            self.tags.add('hist:pool-sub')
            return self.pick(self.pool['sc'])
        return super().scalar_sub()

    def atoms(self, items):
        out = super().atoms(items)
        data = [it for it in items if it[3] in 'TSND']
        if data and self.chance(1, 2):
            it = self.pick(data)
            if self.chance(2, 3):
                out.append(f'{self.col(it)} IN {self.in_sub()}')
            else:
                out.append(f'{self.col(it)} = {self.scalar_sub()}')
        return out


class HistGen(_SharedSubs, catalogs.ModelQueryGen):
    pass


class HistPartGen(_SharedSubs, c09_part.PartGen):
    pass


_PLACE = re.compile(r'(?<= (?:=|>|<) )\d(?=(?: |\)|$))|(?<= (?:>=|<=|!=) )\d(?=(?: |\)|$))')


def placeholderize(draw, sql):
    """Turn a drawn subset of the one-digit constants that stand right of a comparison operator into `?` (never in
    USING / LIMIT / BETWEEN / IN lists).  Returns (text, number of placeholders)."""
    spots = [m.span() for m in _PLACE.finditer(sql)]
    if not spots:
        return sql, 0
    take = [sp for sp in spots if catalogs._chance(draw, 1, 2)] or [spots[draw(st.integers(0, len(spots) - 1))]]
    out, last = [], 0
    for a, b in take:
        out.append(sql[last:a])
        out.append('?')
        last = b
    out.append(sql[last:])
    return ''.join(out), len(take)


@st.composite
def histories(draw, cat):
    """{'ops': [...], 'meta': {...}} for the catalog `cat` (a draw of catalogs.catalogs(with_models=True))."""
    g0 = catalogs.ModelQueryGen(draw, cat)
    pool = {'in': [g0.in_sub() for _ in range(draw(st.integers(1, 2)))],
            'sc': [g0.scalar_sub() for _ in range(draw(st.integers(1, 2)))]}
    nst = draw(st.integers(2, 4))
    stmts, tags = [], set()
    for _ in range(nst):
        kind = catalogs._pick(draw, ['model'] * 7 + ['part'] * 3 + ['free', 'free-dml', 'plain-dml', 'udf']
                              + (['repeat'] * 4 if stmts else [])
                              + (['cte-name'] * 8 if any('WITH w0 AS' in x for x in stmts) else []))
        if kind == 'cte-name':
            # a table that goes by the name of a CTE of an earlier statement (w0 / w1 of the cte, cte2 wraps)
            t = catalogs._pick(draw, g0.view['tables'][catalogs._pick(draw, ['t2', 't3', 't4'])])
            stmts.append(catalogs._pick(draw, [
                'SELECT * FROM w0', 'SELECT * FROM w0 AS w WHERE w.a > 1', f'SELECT * FROM w0 JOIN {t} AS a9 ON w0.a = a9.a',
                f'SELECT * FROM {t} WHERE a IN (SELECT a FROM w0)', f'SELECT * FROM {t} AS a9 JOIN w1 ON w1.a = a9.a',
                f'INSERT INTO int1.t9 SELECT * FROM w0 JOIN {t} AS a9 ON w0.a = a9.a']))
            tags.add('hist:table-named-like-earlier-cte')
            continue
        if kind == 'repeat':
            stmts.append(catalogs._pick(draw, stmts))
            tags.add('hist:stmt-repeated')
            continue
        if kind in ('model', 'part'):
            g = (HistGen if kind == 'model' else HistPartGen)(draw, cat)
            g.pool = pool
            if kind == 'model' and catalogs._chance(draw, 1, 12):
                sel = g.model_only()
            else:
                sel, _ = g.select(catalogs._pick(draw, c09_part.PART_SHAPES) if kind == 'part' else None)
            sql = catalogs.dml_wrap_text(g, sel, catalogs._pick(draw, catalogs.WRAPS + ['cte', 'cte2', 'cte']))
            tags |= {t for t in g.tags if t.startswith(('hist:', 'using:pp', 'where:in-sub', 'where:scalar-sub'))}
        elif kind == 'udf':
            sql = draw(catalogs.udf_queries(cat))
        elif kind == 'plain-dml':
            sql, _ = draw(catalogs.plain_dml(cat))
        else:
            sql = draw(model.queries(catalogs.model_cfg(cat, draw)))['sql']
            if kind == 'free-dml':
                sql, _ = draw(catalogs.dml_wrap(cat, sql))
        stmts.append(sql)
    ops = []
    for sql in stmts:
        mode = catalogs._pick(draw, ['plan', 'plan', 'plan', 'prep', 'prep'])
        if mode == 'plan':
            ops.append({'op': 'plan', 'sql': sql})
            continue
        n = 0
        if catalogs._chance(draw, 3, 4):
            sql, n = placeholderize(draw, sql)
        ops.append({'op': 'prepare', 'sql': sql})
        for _ in range(draw(st.integers(1, 2))):
            ops.append({'op': 'exec', 'v': [catalogs._pick(draw, [0, 1, 2, 7, 'x']) for _ in range(n)]})
    return {'ops': ops, 'meta': {'tags': sorted(tags), 'cat_tags': cat['tags']}}
