"""More places of a statement where a constant can stand (C07): the positions of the property (select list, WHERE,
IN list, INSERT values, UPDATE set) in the statement forms the plain positions of vf/props/c07.py do not build.

Each context is (positions, engine mode):
  engine 'pos'  the sqlite3 clause of c07.engine_check applies unchanged (the statement selects / stores the value the
                way the plain position does)
  engine 'run'  sqlite3 must evaluate the literal and execute the statement; which rows it touches is not judged
  engine None   sqlite3 has no such statement form (row values in an IN list): token oracle only

The other constants of the statements avoid the images of the sentinels (zq, 7, 7.25, TRUE / 1, NULL, 2001-02-03).
"""

CONTEXTS = {
    # ---- WHERE-type conditions
    'w_left': (('where',), 'pos'),              # v = c1
    'w_and': (('where',), 'pos'),               # c1 = v AND c2 = 1
    'w_or': (('where',), 'pos'),                # c2 = 4 OR c1 = v
    'w_not': (('where',), 'pos'),               # NOT c1 <> v
    'w_ne': (('where',), 'run'),                # c1 <> v
    'w_lt': (('where',), 'run'),                # c1 < v
    'w_ge': (('where',), 'run'),                # c1 >= v
    'w_like': (('where',), 'run'),              # c1 LIKE v
    'w_not_like': (('where',), 'run'),          # c1 NOT LIKE v
    'w_is': (('where',), 'run'),                # c1 IS v        (bool on sqlite: a branch of its own in the renderer)
    'w_is_not': (('where',), 'run'),            # c1 IS NOT v
    'w_between_lo': (('where',), 'run'),        # c1 BETWEEN v AND 5
    'w_between_hi': (('where',), 'run'),        # c1 BETWEEN 5 AND v
    'w_between_arg': (('where',), 'run'),       # v BETWEEN c1 AND c2
    'w_concat': (('where',), 'run'),            # c2 = c1 || v
    'w_plus': (('where',), 'run'),              # c2 = c1 + v
    'w_minus': (('where',), 'run'),             # c2 = c1 - v      (a negative number after a binary minus)
    'w_arrow': (('where',), None),              # c1 -> v          (an operator sqlalchemy has no rank for)
    'having': (('where',), 'pos'),              # GROUP BY c1 HAVING c1 = v
    'join_on': (('where',), 'run'),             # FROM t1 JOIN t2 ON t2.c1 = v
    'upd_where': (('where',), 'run'),           # UPDATE t1 SET c2 = 'w' WHERE c1 = v
    'del_where': (('where',), 'run'),           # DELETE FROM t1 WHERE c1 = v
    'ins_sel_where': (('where',), 'run'),       # INSERT INTO t1 (c1, c2) SELECT c1, c2 FROM t2 WHERE c1 = v
    # ---- IN lists
    'in_one': (('in',), 'pos'),                 # c1 IN (v)
    'in_first': (('in',), 'pos'),               # c1 IN (v, 5)
    'in_last': (('in',), 'pos'),                # c1 IN (5, v)
    'not_in': (('in',), 'run'),                 # c1 NOT IN (5, v, 'w')
    'in_nested': (('in',), None),               # (c1, c2) IN ((5, v), (6, 'w'))
    # ---- INSERT values
    'row2': (('insert', 'insert_raw'), 'pos'),          # VALUES (6, 'w'), (5, v): oracle / Snowflake decline
    'first_col': (('insert', 'insert_raw'), 'pos'),     # (c2, c1) VALUES (v, 5)
    'ins_select': (('insert',), 'pos'),                 # INSERT INTO t1 (c1, c2) SELECT 5, v   (auto label)
    'ins_select_alias': (('insert',), 'pos'),           # INSERT INTO t1 (c1, c2) SELECT 5 AS x0, v AS x1
    'no_columns': (('insert',), 'pos'),                 # INSERT INTO t1 VALUES (5, v): every name declines
    'raw_not_plain': (('insert_raw',), 'pos'),          # raw python values, is_plain=False: no placeholders
    # ---- UPDATE set
    'set_first': (('update',), 'pos'),          # SET c2 = v, c1 = 5 WHERE c1 = 5
    'set_last': (('update',), 'pos'),           # SET c1 = 5, c2 = v WHERE c1 = 5
    'set_no_where': (('update',), 'run'),       # SET c2 = v
    # ---- select list
    'sel_from': (('sel', 'sel_alias'), 'run'),          # SELECT v FROM t1
    'sel_second': (('sel', 'sel_alias'), 'run'),        # SELECT c1, v FROM t1
    'sel_distinct': (('sel', 'sel_alias'), 'pos'),      # SELECT DISTINCT v
    'sel_sub': (('sel', 'sel_alias'), 'pos'),           # SELECT * FROM (SELECT v) AS s
    'sel_scalar': (('sel_alias',), 'pos'),              # SELECT (SELECT v AS x1) AS y
    'sel_union': (('sel_alias',), 'run'),               # SELECT 5 AS x1 UNION SELECT v AS x1
    'sel_cast': (('sel_alias',), 'run'),                # SELECT CAST(v AS CHAR) AS x1
}

NAMES = tuple(CONTEXTS)
SHAPES = [(c, p) for c in NAMES for p in CONTEXTS[c][0]]


def engine_mode(ctx):
    return CONTEXTS[ctx][1]


def build(ctx, pos, node, raw):
    """node(alias=None) -> a fresh constant node; raw = the python value (for insert_raw)."""
    from mindsdb_sql.parser import ast
    I, C = ast.Identifier, ast.Constant
    B = lambda op, a, b: ast.BinaryOperation(op, args=[a, b])

    def sel_where(cond):
        return ast.Select(targets=[I('c1')], from_table=I('t1'), where=cond)

    def target():
        return node('x1') if pos == 'sel_alias' else node()

    if ctx == 'w_left':
        return sel_where(B('=', node(), I('c1')))
    if ctx == 'w_and':
        return sel_where(B('and', B('=', I('c1'), node()), B('=', I('c2'), C(1))))
    if ctx == 'w_or':
        return sel_where(B('or', B('=', I('c2'), C(4)), B('=', I('c1'), node())))
    if ctx == 'w_not':
        return sel_where(ast.UnaryOperation('NOT', [B('<>', I('c1'), node())]))
    ops = {'w_ne': '<>', 'w_lt': '<', 'w_ge': '>=', 'w_like': 'like', 'w_not_like': 'not like', 'w_is': 'is',
           'w_is_not': 'is not', 'w_arrow': '->'}
    if ctx in ops:
        return sel_where(B(ops[ctx], I('c1'), node()))
    if ctx == 'w_between_lo':
        return sel_where(ast.BetweenOperation(args=[I('c1'), node(), C(5)]))
    if ctx == 'w_between_hi':
        return sel_where(ast.BetweenOperation(args=[I('c1'), C(5), node()]))
    if ctx == 'w_between_arg':
        return sel_where(ast.BetweenOperation(args=[node(), I('c1'), I('c2')]))
    if ctx == 'w_concat':
        return sel_where(B('=', I('c2'), B('||', I('c1'), node())))
    if ctx == 'w_plus':
        return sel_where(B('=', I('c2'), B('+', I('c1'), node())))
    if ctx == 'w_minus':
        return sel_where(B('=', I('c2'), B('-', I('c1'), node())))
    if ctx == 'having':
        return ast.Select(targets=[I('c1')], from_table=I('t1'), group_by=[I('c1')], having=B('=', I('c1'), node()))
    if ctx == 'join_on':
        return ast.Select(targets=[I('t1.c1')],
                          from_table=ast.Join(left=I('t1'), right=I('t2'), join_type='JOIN',
                                              condition=B('=', I('t2.c1'), node())))
    if ctx == 'upd_where':
        return ast.Update(table=I('t1'), update_columns={'c2': C('w')}, where=B('=', I('c1'), node()))
    if ctx == 'del_where':
        return ast.Delete(table=I('t1'), where=B('=', I('c1'), node()))
    if ctx == 'ins_sel_where':
        return ast.Insert(table=I('t1'), columns=[I('c1'), I('c2')],
                          from_select=ast.Select(targets=[I('c1'), I('c2')], from_table=I('t2'),
                                                 where=B('=', I('c1'), node())))
    if ctx == 'in_one':
        return sel_where(B('in', I('c1'), ast.Tuple([node()])))
    if ctx == 'in_first':
        return sel_where(B('in', I('c1'), ast.Tuple([node(), C(5)])))
    if ctx == 'in_last':
        return sel_where(B('in', I('c1'), ast.Tuple([C(5), node()])))
    if ctx == 'not_in':
        return sel_where(B('not in', I('c1'), ast.Tuple([C(5), node(), C('w')])))
    if ctx == 'in_nested':
        return sel_where(B('in', ast.Tuple([I('c1'), I('c2')]),
                           ast.Tuple([ast.Tuple([C(5), node()]), ast.Tuple([C(6), C('w')])])))
    cols = [I('c1'), I('c2')]
    if ctx == 'row2':
        if pos == 'insert_raw':
            return ast.Insert(table=I('t1'), columns=cols, values=[[6, 'w'], [5, raw]], is_plain=True)
        return ast.Insert(table=I('t1'), columns=cols, values=[[C(6), C('w')], [C(5), node()]])
    if ctx == 'first_col':
        if pos == 'insert_raw':
            return ast.Insert(table=I('t1'), columns=[I('c2'), I('c1')], values=[[raw, 5]], is_plain=True)
        return ast.Insert(table=I('t1'), columns=[I('c2'), I('c1')], values=[[node(), C(5)]])
    if ctx == 'ins_select':
        return ast.Insert(table=I('t1'), columns=cols, from_select=ast.Select(targets=[C(5), node()]))
    if ctx == 'ins_select_alias':
        return ast.Insert(table=I('t1'), columns=cols,
                          from_select=ast.Select(targets=[C(5, alias=I('x0')), node('x1')]))
    if ctx == 'no_columns':
        return ast.Insert(table=I('t1'), values=[[C(5), node()]])
    if ctx == 'raw_not_plain':
        return ast.Insert(table=I('t1'), columns=cols, values=[[5, raw]])
    if ctx == 'set_first':
        return ast.Update(table=I('t1'), update_columns={'c2': node(), 'c1': C(5)}, where=B('=', I('c1'), C(5)))
    if ctx == 'set_last':
        return ast.Update(table=I('t1'), update_columns={'c1': C(5), 'c2': node()}, where=B('=', I('c1'), C(5)))
    if ctx == 'set_no_where':
        return ast.Update(table=I('t1'), update_columns={'c2': node()})
    if ctx == 'sel_from':
        return ast.Select(targets=[target()], from_table=I('t1'))
    if ctx == 'sel_second':
        return ast.Select(targets=[I('c1'), target()], from_table=I('t1'))
    if ctx == 'sel_distinct':
        return ast.Select(targets=[target()], distinct=True)
    if ctx == 'sel_sub':
        return ast.Select(targets=[ast.Star()], from_table=ast.Select(targets=[target()], alias=I('s')))
    if ctx == 'sel_scalar':
        return ast.Select(targets=[ast.Select(targets=[node('x1')], alias=I('y'))])
    if ctx == 'sel_union':
        return ast.Union(left=ast.Select(targets=[C(5, alias=I('x1'))]), right=ast.Select(targets=[node('x1')]))
    if ctx == 'sel_cast':
        return ast.Select(targets=[ast.TypeCast(type_name='CHAR', arg=node(), alias=I('x1'))])
    raise ValueError((ctx, pos))
