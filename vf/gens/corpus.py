"""G-corpus: SQL strings harvested from the repository's own tests (committed under /verif/corpus)."""
import json, os
from vf.lib import VERIF

_cache = {}


def load(name):
    if name not in _cache:
        with open(os.path.join(VERIF, 'corpus', name + '.jsonl')) as f:
            _cache[name] = [json.loads(l) for l in f if l.strip()]
    return _cache[name]


def accepted(dialect=None):
    return [x for x in load('accepted') if dialect is None or x['dialect'] == dialect]


def rejected(dialect=None):
    return [x for x in load('rejected') if dialect is None or x['dialect'] == dialect]

DIALECTS = ('mindsdb', 'mysql', 'sqlite')
