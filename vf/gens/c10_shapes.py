"""Bounded-exhaustive statement shapes of C10 for name / catalog constellations that the random G-routing templates do
not produce (found by an independent hunt).  Every shape is a small product of hand-written templates, places, default
namespaces, catalog forms and spellings of the qualifiers; nothing random.  The world is the one of vf/gens/routing.py
(integrations int1 / int2, projects proj / mindsdb, models proj.pred, mindsdb.pred2, time series proj.tsp (order a,
group b), mindsdb.tsn (order a)) plus the plain model `mindsdb.int2`, which is named like an integration.

A case = {'sql', 'catalog', 'mode', 'meta': {'tags': [shape tag]}}; the oracle derives everything else from the text.
"""
import itertools

EXTRA_MODELS = [('mindsdb', 'int2', None)]

# catalog forms: (tag, overrides of the base spec)
FORMS = [
    ('base', {}),
    ('legacy-dotted', {'pm': 'legacy-dotted'}),
    ('legacy-dotted-upper', {'pm': 'legacy-dotted', 'catcase': 'upper'}),
    ('dn-upper', {'dncase': 'upper'}),
    ('dn-mixed', {'dncase': 'mixed', 'enc': 'dicts', 'pm': 'legacy'}),
    ('dicts-legacy-upper', {'enc': 'dicts', 'pm': 'legacy', 'catcase': 'upper'}),
]
DNS = ['mindsdb', 'int1', 'proj', None]
WITH_DICTS = ('one-part-like-database', 'cte-like-model')


def spec(dn, form):
    s = {'dn': dn, 'api': False, 'enc': 'names', 'pm': 'list', 'catcase': 'lower', 'dncase': 'lower'}
    s.update(dict(FORMS)[form])
    if dn is None:
        s['dncase'] = 'lower'
    return s


def _sp(q, up):
    return q.upper() if up else q


def shapes():
    """yield (tag, sql template with {Q:<db>} place-holders for qualifiers, allowed default namespaces)"""
    all_dn = DNS
    some = ['mindsdb', 'int1', 'proj']
    two, three = ['mindsdb', 'int1'], ['mindsdb', 'int1', None]

    # --- baseline statements over which the catalog forms are crossed (legacy dict with dotted keys, spelling of the
    #     default_namespace argument): every kind of model reference and unqualified names
    for m in ('{Q:proj}.pred', '{Q:mindsdb}.pred2', '{Q:proj}.pred.3', '{Q:mindsdb}.int2'):
        yield 'catalog-form:model-join', f'SELECT * FROM {{Q:int1}}.t1 AS x JOIN {m} AS m', all_dn
        yield 'catalog-form:model-select', f'SELECT * FROM {m} WHERE a = 1', all_dn
    yield 'catalog-form:model-join', 'SELECT * FROM {Q:int1}.t1 AS x JOIN {Q:int2}.t3 AS y ON x.a = y.a JOIN {Q:proj}.pred AS m', all_dn
    for m in ('{Q:proj}.tsp', '{Q:mindsdb}.tsn', '{Q:mindsdb}.tsn.12'):
        yield 'catalog-form:ts-join', f'SELECT * FROM {{Q:int1}}.t1 AS x JOIN {m} AS m WHERE x.a > LATEST', all_dn
        yield 'catalog-form:ts-join', f'SELECT * FROM {{Q:int2}}.t3 AS x JOIN {m} AS m WHERE x.a > 1', all_dn
    # unqualified names: the default namespace decides
    yield 'catalog-form:unqualified-model', 'SELECT * FROM pred2 WHERE a = 1', ['mindsdb']
    yield 'catalog-form:unqualified-model', 'SELECT * FROM pred WHERE a = 1', ['proj']
    yield 'catalog-form:unqualified-model', 'SELECT * FROM {Q:int1}.t1 AS x JOIN pred2 AS m', ['mindsdb']
    yield 'catalog-form:unqualified-model', 'SELECT * FROM {Q:int1}.t1 AS x JOIN tsp AS m WHERE x.a > LATEST', ['proj']
    yield 'catalog-form:unqualified-table', 'SELECT t7.a FROM t7 WHERE t7.b = 1', some
    yield 'catalog-form:unqualified-table', 'SELECT {Q:@dn}.t7.a FROM t7', some
    yield 'catalog-form:unqualified-table', 'SELECT * FROM t7 AS x JOIN {Q:@dn}.t1 AS y ON x.a = y.a', some
    yield 'catalog-form:unqualified-table', 'SELECT * FROM t7 AS x JOIN {Q:int2}.t3 AS y ON x.a = y.a', some
    yield 'catalog-form:unqualified-table', 'SELECT x.a FROM {Q:int2}.t3 AS x WHERE x.a IN (SELECT s.a FROM t7 AS s)', some
    yield 'catalog-form:unqualified-table', 'INSERT INTO t7 (a, b) SELECT x.a, x.b FROM {Q:int2}.t3 AS x', some
    yield 'catalog-form:unqualified-table', 'DELETE FROM t7 WHERE a IN (SELECT s.a FROM {Q:int2}.t3 AS s)', some

    # --- a table database.schema.table whose last two parts spell project.model
    for r, ts in (('{Q:int1}.mindsdb.pred2', 0), ('{Q:int2}.proj.pred', 0), ('{Q:int1}.{Q:proj}.pred', 0),
                  ('{Q:int1}.proj.tsp', 1), ('{Q:int2}.mindsdb.tsn', 1), ('{Q:int1}.mindsdb.pred2.3', 0)):
        other = '{Q:int2}.t3' if 'int1' in r else '{Q:int1}.t1'
        yield 'schema-table-like-model:from', f'SELECT * FROM {r} AS x WHERE x.a = 1', three
        yield 'schema-table-like-model:join', f'SELECT * FROM {other} AS x JOIN {r} AS y ON x.a = y.a', three
        yield 'schema-table-like-model:join', f'SELECT * FROM {r} AS y JOIN {other} AS x', three
        yield 'schema-table-like-model:where-sub', f'SELECT * FROM {r} AS x WHERE x.a = (SELECT max(s.a) FROM {other} AS s)', three
        yield 'schema-table-like-model:in-sub', f'SELECT x.a FROM {other} AS x WHERE x.a IN (SELECT y.a FROM {r} AS y)', three
        yield 'schema-table-like-model:insert', f'INSERT INTO {other} (a, b) SELECT * FROM {r} AS x WHERE x.a = 1', three
        yield 'schema-table-like-model:cte', f'WITH c0 AS (SELECT * FROM {r}) SELECT * FROM {other} AS x JOIN c0 AS y ON x.a = y.a', three
        if ts:
            yield 'schema-table-like-model:ts', f'SELECT * FROM {other} AS x JOIN {r} AS m WHERE x.a > LATEST', three

    # --- a one-part name spelled like a database: a table of the default namespace (or, for `int2` under the default
    #     namespace mindsdb, the model mindsdb.int2)
    for n in ('int2', 'int1', 'proj'):
        yield 'one-part-like-database:from', f'SELECT * FROM {n} AS y WHERE y.a = 1', some
        yield 'one-part-like-database:join', f'SELECT * FROM {{Q:int2}}.t3 AS x JOIN {n} AS y ON x.a = y.a', some
        yield 'one-part-like-database:join', f'SELECT * FROM {n} AS y JOIN {{Q:int1}}.t1 AS x ON x.a = y.a', some
        yield 'one-part-like-database:join', f'SELECT * FROM {{Q:int1}}.t1 AS x LEFT JOIN {n} AS y ON x.a = y.a WHERE x.b = 1', some
        yield 'one-part-like-database:sub', f'SELECT x.a FROM {{Q:int1}}.t1 AS x WHERE x.a IN (SELECT y.a FROM {n} AS y)', some

    # --- a common table expression named like a model of the default namespace
    for c, dns in (('tsn', ['mindsdb', 'proj']), ('tsp', ['proj', 'int1']), ('pred2', ['mindsdb']), ('pred', ['proj']),
                   ('int2', ['mindsdb'])):
        yield 'cte-like-model:join', f'WITH {c} AS (SELECT * FROM {{Q:int1}}.t1) SELECT * FROM {{Q:int2}}.t3 AS x JOIN {c} AS y ON x.a = y.a', dns
        yield 'cte-like-model:join', f'WITH {c} AS (SELECT * FROM {{Q:int1}}.t1) SELECT * FROM {{Q:int2}}.t3 AS x JOIN {c}', dns
        yield 'cte-like-model:join', f'WITH {c} AS (SELECT * FROM {{Q:int1}}.t1) SELECT * FROM {c} AS y JOIN {{Q:int2}}.t3 AS x ON x.a = y.a', dns
        yield 'cte-like-model:join', f'WITH {c} AS (SELECT * FROM {{Q:int1}}.t1) SELECT * FROM {{Q:int2}}.t3 AS x JOIN {c} AS y WHERE x.a > 1', dns
        yield 'cte-like-model:from', f'WITH {c} AS (SELECT * FROM {{Q:int1}}.t1) SELECT y.a FROM {c} AS y WHERE y.a = 1', dns
        yield 'cte-like-model:sub', f'WITH {c} AS (SELECT * FROM {{Q:int1}}.t1) SELECT x.a FROM {{Q:int2}}.t3 AS x WHERE x.a IN (SELECT y.a FROM {c} AS y)', dns

    # --- join with a time-series model: sub-selects in WHERE and in the select list
    for m, grouped in (('{Q:proj}.tsp', 1), ('{Q:mindsdb}.tsn', 0), ('{Q:mindsdb}.tsn.3', 0)):
        for t, o in (('{Q:int1}.t1', '{Q:int2}.t3'), ('{Q:int2}.t3', '{Q:int1}.t2'), ('{Q:int1}.t1', '{Q:int1}.t2'),
                     ('{Q:int1}.t1', '{Q:proj}.v1')):
            ws = [f'x.a > (SELECT max(s.a) FROM {o} AS s)', f'x.a = (SELECT max(s.a) FROM {o} AS s)',
                  f'x.a BETWEEN (SELECT min(s.a) FROM {o} AS s) AND 9']
            if grouped:
                ws += [f'x.a > LATEST AND x.b IN (SELECT s.b FROM {o} AS s)',
                       f'x.a > 1 AND x.b = (SELECT max(s.b) FROM {o} AS s)']
            for w in ws:
                yield 'ts-join:where-sub', f'SELECT * FROM {t} AS x JOIN {m} AS m WHERE {w}', two
            yield 'ts-join:where-sub', f'SELECT * FROM {m} AS m JOIN {t} AS x WHERE {ws[0]}', two
            yield 'ts-join:where-sub', f'INSERT INTO {{Q:int2}}.t4 (a, b) SELECT * FROM (SELECT * FROM {t} AS x1) AS x JOIN {m} AS m WHERE {ws[0]}', two
            yield 'ts-join:target-sub', f'SELECT (SELECT max(s.a) FROM {o} AS s) AS c0, m.p FROM {t} AS x JOIN {m} AS m WHERE x.a > LATEST', two
            yield 'ts-join:target-sub', f'SELECT x.a, coalesce((SELECT max(s.a) FROM {o} AS s), 0) AS c0 FROM {t} AS x JOIN {m} AS m WHERE x.a > 1', two

    # --- equally named un-aliased tables of two places: every column is written with its full name, the columns
    #     k1 / k2 exist in the first / second table only
    for (p1, p2) in (('int1', 'int2'), ('int2', 'int1'), ('int1', 'proj'), ('proj', 'int2')):
        a, b = f'{{Q:{p1}}}.t1', f'{{Q:{p2}}}.t1'
        for jk in ('JOIN', 'LEFT JOIN'):
            for w in (f'{a}.k1 = 1', f'{b}.k2 = 2', f'{a}.k1 = 1 AND {b}.k2 = 2', f'{a}.k1 > 1 OR {a}.k1 < 0'):
                yield 'same-name-join:where', f'SELECT * FROM {a} {jk} {b} ON {a}.a = {b}.a WHERE {w}', ['mindsdb', None]
            yield 'same-name-join:on', f'SELECT * FROM {a} {jk} {b} ON {a}.a = {b}.a AND {a}.k1 = 1', ['mindsdb', None]
        yield 'same-name-join:limit', f'SELECT {a}.a, {b}.b FROM {a} JOIN {b} ON {a}.a = {b}.a WHERE {a}.k1 = 1 LIMIT 5', ['mindsdb', None]
        # control: with aliases
        yield 'same-name-join:aliased', f'SELECT * FROM {a} AS x JOIN {b} AS y ON x.a = y.a WHERE x.k1 = 1 AND y.k2 = 2', ['mindsdb', None]

    # --- dbt shape (sub-select joined with a time-series model below INSERT / CREATE TABLE) with a target that names
    #     no database: names without a database live in the default namespace
    for m in ('{Q:proj}.tsp', '{Q:mindsdb}.tsn'):
        for u in ('t7', 'sch.t8'):
            for w in ('', ' WHERE q.a > LATEST', ' WHERE q.a > 1'):
                yield 'dbt-unqualified-target:insert', f'INSERT INTO t7 (a, b) SELECT * FROM (SELECT * FROM {u} AS x1) AS q JOIN {m} AS m{w}', some
            yield 'dbt-unqualified-target:insert', f'INSERT INTO zzz.t9 (a, b) SELECT * FROM (SELECT * FROM {u} AS x1) AS q JOIN {m} AS m', some
            yield 'dbt-unqualified-target:create', f'CREATE TABLE t7 (SELECT * FROM (SELECT * FROM {u} AS x1) AS q JOIN {m} AS m WHERE q.a > LATEST)', some
            yield 'dbt-unqualified-target:update', f'UPDATE t7 SET a = df.a FROM (SELECT * FROM (SELECT * FROM {u} AS x1) AS q JOIN {m} AS m WHERE q.a > 1) AS df WHERE t7.a = df.a', some


def render(tpl, dn, up):
    import re

    def rep(mo):
        q = mo.group(1)
        if q == '@dn':
            q = dn
        return _sp(q, up)
    return re.sub(r'\{Q:([@\w]+)\}', rep, tpl)


def fixed_cases():
    """the complete list, in a fixed order: shape x default namespace x catalog form x spelling; catalog forms other
    than the base are crossed with the `catalog-form:*` statements and with one spelling of the other shapes"""
    out, seen = [], set()
    for tag, tpl, dns in shapes():
        is_form = tag.startswith('catalog-form:')
        for dn, (form, _), up in itertools.product(dns, FORMS, (False, True)):
            if not is_form and form != 'base' and not (form == 'dicts-legacy-upper' and tag.startswith(WITH_DICTS)):
                continue
            if form.startswith('dn-') and dn is None:
                continue
            if is_form and ((form == 'legacy-dotted-upper' and not up) or (form == 'dn-mixed' and up)
                            or form == 'dicts-legacy-upper'):
                continue        # one spelling is enough for the second variant of a form; dicts: random generator
            if '{Q:@dn}' in tpl and dn is None:
                continue
            sql = render(tpl, dn, up)
            if '{Q:' not in tpl and up:
                continue
            sp = spec(dn, form)
            modes = ['plan'] + (['prepared'] if (is_form and form == 'base') else [])
            for mode in modes:
                key = (sql, tuple(sorted(sp.items(), key=str)), mode)
                if key in seen:
                    continue
                seen.add(key)
                out.append({'sql': sql, 'catalog': sp, 'mode': mode, 'meta': {'tags': ['fixed', 'shape:' + tag]}})
    out.extend(c for c in wave6_cases() if (c['sql'], tuple(sorted(c['catalog'].items(), key=str)), c['mode']) not in seen)
    return out


# ---------------------------------------------------------------------------------------------------------------
# wave 6: a project that is ALSO listed among the data integrations; outer clauses of a select from a native query;
# UPDATE with conditions of its own; the dbt shape with a target that names a database
ALSO_FORMS = [
    # (tag, overrides); spec['also'] = 'proj' | 'mindsdb' | 'mindsdb+proj': projects that the catalog lists among the data
    # integrations as well (a plain name when the integrations are names, a {'type': 'data'} dict in place of the
    # project dict otherwise)
    ('names-list', {'enc': 'names', 'pm': 'list'}),
    ('dicts-list', {'enc': 'dicts', 'pm': 'list'}),
    ('names-legacy', {'enc': 'names', 'pm': 'legacy'}),
    ('dicts-legacy-upper', {'enc': 'dicts', 'pm': 'legacy', 'catcase': 'upper'}),
]


def also_shapes():
    """statements that touch one project only (and a model of it), alone and nested in the listed positions, plus
    controls (project tables only, a model next to an integration table)"""
    for P, M, V, T2, TSM in (('proj', 'pred', 'v1', 't1', 'tsp'), ('mindsdb', 'pred2', 'v2', 't4', 'tsn')):
        q = f'{{Q:{P}}}'
        dns = ['mindsdb', None]
        yield 'project-as-integration:model-select', P, f'SELECT * FROM {q}.{M} WHERE a = 1', dns
        yield 'project-as-integration:model-select', P, f'SELECT * FROM {q}.{M}.3 WHERE a = 1 AND b = 2', dns
        yield 'project-as-integration:model-select', P, f'SELECT * FROM {M} WHERE a = 1', [P]
        yield 'project-as-integration:model-join', P, f'SELECT * FROM {q}.{V} AS x JOIN {q}.{M} AS m', dns
        yield 'project-as-integration:model-join', P, f'SELECT x.a, m.p FROM {q}.{V} AS x JOIN {q}.{M}.12 AS m WHERE x.a > 1', dns
        yield 'project-as-integration:model-join', P, f'SELECT * FROM {q}.{M} AS m JOIN {q}.{V} AS x', dns
        yield 'project-as-integration:model-join', P, f'SELECT * FROM {V} AS x JOIN {M} AS m', [P]
        yield 'project-as-integration:model-join', P, f'SELECT * FROM {q}.{V} AS x JOIN {q}.{T2} AS y ON x.a = y.a JOIN {q}.{M} AS m', dns
        yield 'project-as-integration:ts-join', P, f'SELECT * FROM {q}.{V} AS x JOIN {q}.{TSM} AS m WHERE x.a > LATEST', dns
        yield 'project-as-integration:ts-join', P, f'SELECT * FROM {V} AS x JOIN {TSM} AS m WHERE x.a > 1', [P]
        yield 'project-as-integration:nested', P, f'SELECT q.a FROM (SELECT x.a, m.p FROM {q}.{V} AS x JOIN {q}.{M} AS m) AS q', dns
        yield 'project-as-integration:nested', P, f'WITH c0 AS (SELECT x.a, m.p FROM {q}.{V} AS x JOIN {q}.{M} AS m) SELECT * FROM {{Q:int1}}.t1 AS y JOIN c0 AS z ON y.a = z.a', dns
        yield 'project-as-integration:nested', P, f'WITH c0 AS (SELECT * FROM {q}.{M} WHERE a = 1) SELECT * FROM c0', dns
        yield 'project-as-integration:nested', P, f'INSERT INTO {{Q:int1}}.t2 (a, b) SELECT x.a, m.p FROM {q}.{V} AS x JOIN {q}.{M} AS m', dns
        yield 'project-as-integration:nested', P, f'CREATE TABLE {{Q:int1}}.t2 (SELECT * FROM {q}.{M} WHERE a = 1)', dns
        yield 'project-as-integration:nested', P, f'SELECT y.a FROM {{Q:int1}}.t1 AS y WHERE y.a IN (SELECT m.p FROM {q}.{V} AS x JOIN {q}.{M} AS m)', dns
        yield 'project-as-integration:nested', P, f'SELECT y.a, (SELECT max(m.p) FROM {q}.{V} AS x JOIN {q}.{M} AS m) AS c0 FROM {{Q:int1}}.t1 AS y', dns
        yield 'project-as-integration:nested', P, f'SELECT x.a FROM {q}.{V} AS x JOIN {q}.{M} AS m UNION SELECT y.a FROM {{Q:int1}}.t1 AS y', dns
        # controls: nothing but tables of the project / a model next to a table of an integration
        yield 'project-as-integration:tables', P, f'SELECT * FROM {q}.{V} AS x WHERE x.a = 1', dns
        yield 'project-as-integration:tables', P, f'SELECT * FROM {q}.{V} AS x JOIN {q}.{T2} AS y ON x.a = y.a', dns
        yield 'project-as-integration:tables', P, f'SELECT x.a FROM {q}.{V} AS x WHERE x.a IN (SELECT y.a FROM {q}.{T2} AS y)', dns
        yield 'project-as-integration:tables', P, f'SELECT * FROM {{Q:int1}}.t1 AS x JOIN {q}.{M} AS m', dns
        yield 'project-as-integration:tables', P, f'DELETE FROM {q}.{V} WHERE a IN (SELECT y.a FROM {q}.{T2} AS y)', dns


def native_shapes():
    """outer clauses of a select whose FROM is a native query `integration (text)`: the text is opaque, the tables of
    the sub-selects around it are ordinary references"""
    three = ['mindsdb', 'int1', None]
    N = '{Q:int1} (select * from t0)'
    for o in ('{Q:int2}.t3', '{Q:int1}.t2', '{Q:proj}.v1'):
        sub, agg = f'(SELECT s.a FROM {o} AS s)', f'(SELECT max(s.a) FROM {o} AS s)'
        yield 'native-from:where-sub', f'SELECT * FROM {N} WHERE a IN {sub}', three
        yield 'native-from:where-sub', f'SELECT * FROM {N} AS q WHERE q.a = {agg} AND q.b = 1', three
        yield 'native-from:where-sub', f'SELECT * FROM {N} AS q WHERE EXISTS {sub}', three
        yield 'native-from:where-sub', f'SELECT q.a FROM {N} AS q WHERE CASE {agg} WHEN 1 THEN 2 ELSE 3 END = q.a', three
        yield 'native-from:where-sub', f'SELECT q.a FROM {N} AS q WHERE coalesce({agg}, 0) = q.a LIMIT 3', three
        yield 'native-from:target-sub', f'SELECT q.a, {agg} AS c0 FROM {N} AS q', three
        yield 'native-from:target-sub', f'SELECT CASE WHEN q.a = 1 THEN {agg} ELSE 0 END AS c0 FROM {N} AS q WHERE q.b = 1', three
        yield 'native-from:target-sub', f'SELECT coalesce({agg}, q.a) AS c0 FROM {N} AS q', three
        yield 'native-from:nested', f'INSERT INTO {{Q:int2}}.t4 (a, b) SELECT * FROM {N} AS q WHERE q.a IN {sub}', three
        yield 'native-from:nested', f'SELECT * FROM (SELECT * FROM {N} AS q WHERE q.a IN {sub}) AS r WHERE r.b = 1', three
        yield 'native-from:nested', f'WITH c0 AS (SELECT * FROM {N} AS q WHERE q.a IN {sub}) SELECT * FROM {{Q:int2}}.t4 AS y JOIN c0 AS z ON y.a = z.a', three
        yield 'native-from:join', f'SELECT * FROM {N} AS x JOIN {{Q:int2}}.t4 AS y ON x.a = y.a WHERE x.a IN {sub}', three
        yield 'native-from:join', f'SELECT x.a, {agg} AS c0 FROM {N} AS x JOIN {{Q:int2}}.t4 AS y ON x.a = y.a', three
        yield 'native-from:join', f'SELECT * FROM {N} AS x JOIN {{Q:proj}}.pred AS m WHERE x.a IN {sub}', three
        yield 'native-from:ts-join', f'SELECT * FROM {N} AS x JOIN {{Q:mindsdb}}.tsn AS m WHERE x.a > {agg}', three
        yield 'native-from:ts-join', f'SELECT * FROM {N} AS x JOIN {{Q:proj}}.tsp AS m WHERE x.a > LATEST AND x.b IN (SELECT s.b FROM {o} AS s)', three
    yield 'native-from:where-sub', f'SELECT * FROM {N} AS q WHERE q.a = (SELECT m.p FROM {{Q:mindsdb}}.pred2 AS m WHERE m.a = 1)', three
    yield 'native-from:plain', f'SELECT * FROM {N}', three
    yield 'native-from:plain', f'SELECT q.a FROM {N} AS q WHERE q.b = 1', three


def update_shapes():
    """UPDATE with conditions of its own: sub-selects in WHERE (with and without FROM), columns written with the
    database in front"""
    three = ['mindsdb', 'int1', None]
    tgt = '{Q:int1}.t2'
    src = '(SELECT * FROM {Q:int2}.t4) AS df'
    for o in ('{Q:int2}.t3', '{Q:int1}.t1', '{Q:proj}.v1'):
        yield 'update-where:sub', f'UPDATE {tgt} SET a = 1 WHERE b IN (SELECT s.b FROM {o} AS s)', three
        yield 'update-where:sub', f'UPDATE {tgt} SET a = 1 WHERE b = (SELECT max(s.b) FROM {o} AS s) AND a > 0', three
        yield 'update-where:sub', f'UPDATE {tgt} SET a = 1, b = 2 WHERE NOT EXISTS (SELECT s.b FROM {o} AS s WHERE s.a = 1)', three
        yield 'update-where:sub', f'UPDATE t2 SET a = 1 WHERE b IN (SELECT s.b FROM {o} AS s)', ['int1']
        yield 'update-where:from-sub', f'UPDATE {tgt} SET a = df.a FROM {src} WHERE t2.a = df.a AND t2.b IN (SELECT s.b FROM {o} AS s)', three
        yield 'update-where:from-sub', f'UPDATE {tgt} SET a = df.a FROM {src} WHERE t2.a = df.a AND t2.b > (SELECT min(s.b) FROM {o} AS s)', three
    yield 'update-where:qualified-column', f'UPDATE {tgt} SET a = 1 WHERE {tgt}.b = 2', three
    yield 'update-where:qualified-column', f'UPDATE {tgt} SET a = 1 WHERE {tgt}.b = 2 OR {tgt}.a IS NULL', three
    yield 'update-where:qualified-column', f'UPDATE {tgt} SET a = df.a FROM {src} WHERE {tgt}.a = df.a', three
    yield 'update-where:plain', f'UPDATE {tgt} SET a = 1 WHERE b = 2', three
    yield 'update-where:plain', f'UPDATE {tgt} SET a = df.a FROM {src} WHERE t2.a = df.a', three
    yield 'update-where:plain', 'UPDATE t2 SET a = 1 WHERE t2.b = 2', ['int1']


def dbt_qualified_shapes():
    """the dbt shape (sub-select joined with a time-series model below INSERT / CREATE TABLE / UPDATE) with a target
    that names a database and an inner table that names none: the inner table lives in the default namespace"""
    some = ['mindsdb', 'int1', 'proj']
    for m in ('{Q:proj}.tsp', '{Q:mindsdb}.tsn'):
        for tgt in ('{Q:int1}.t2', '{Q:int2}.t4'):
            for u in ('t7', 'sch.t8'):
                for w in ('', ' WHERE q.a > LATEST'):
                    yield 'dbt-qualified-target:insert', f'INSERT INTO {tgt} (a, b) SELECT * FROM (SELECT * FROM {u} AS x1) AS q JOIN {m} AS m{w}', some
                yield 'dbt-qualified-target:create', f'CREATE TABLE {tgt} (SELECT * FROM (SELECT * FROM {u} AS x1) AS q JOIN {m} AS m WHERE q.a > LATEST)', some
                yield 'dbt-qualified-target:update', f'UPDATE {tgt} SET a = df.a FROM (SELECT * FROM (SELECT * FROM {u} AS x1) AS q JOIN {m} AS m WHERE q.a > 1) AS df WHERE {tgt.split(".")[-1]}.a = df.a', some


def wave6_cases():
    out, seen = [], set()

    def add(tag, tpl, dn, sp, up):
        if up and '{Q:' not in tpl:
            return
        sql = render(tpl, dn, up)
        key = (sql, tuple(sorted(sp.items(), key=str)))
        if key not in seen:
            seen.add(key)
            out.append({'sql': sql, 'catalog': sp, 'mode': 'plan', 'meta': {'tags': ['fixed', 'shape:' + tag]}})

    for tag, P, tpl, dns in also_shapes():
        for dn, up in itertools.product(dns, (False, True)):
            forms = [(f, ov, P) for f, ov in ALSO_FORMS] + [('names-list', ALSO_FORMS[0][1], 'mindsdb+proj')]
            for form, ov, also in forms:
                if up and form in ('names-legacy', 'dicts-list') and not tag.endswith(('model-select', 'model-join')):
                    continue
                sp = dict(spec(dn, 'base'), **ov)
                sp['also'] = also
                add(tag, tpl, dn, sp, up)
    for gen in (native_shapes, update_shapes, dbt_qualified_shapes):
        for tag, tpl, dns in gen():
            for dn, up in itertools.product(dns, (False, True)):
                add(tag, tpl, dn, spec(dn, 'base'), up)
                if not up and gen is not dbt_qualified_shapes:
                    add(tag, tpl, dn, dict(spec(dn, 'base'), enc='dicts', pm='legacy'), up)
    return out
