"""Coverage-guided fuzz target for C02 (atheris / libFuzzer): bytes -> (dialect, SQL-ish text) -> the C02 oracle.

Run by vf/props/c02.py in the thorough tier: 16 independent processes (no -fork), each with its own fresh corpus
directory, `-seed` derived from VERIF_SEED, a case budget (`-runs`), and a dictionary of all keywords and symbols.
Half of the processes start from an empty corpus, half from short corpus statements.  The semantic oracle is inside
the target: an outcome other than tree / ParsingException / LexError is written to <out>/crash-<n>.json (site = exception
type @ innermost library frame) and the process keeps going (findings are excluded by signature so that the campaign
continues behind them).
"""
import signal, json, os, sys


WATCHDOG_S = 10


def main(argv):
    out_dir, seed_corpus = argv[1], argv[2] == '1'
    sys.path.insert(0, os.path.join(os.path.dirname(os.path.dirname(os.path.dirname(os.path.abspath(__file__)))), '.deps'))
    import atheris
    from vf import lib
    lib.load()
    with atheris.instrument_imports(include=['mindsdb_sql', 'sly']):
        import mindsdb_sql
        from mindsdb_sql import parse_sql
        import mindsdb_sql.parser.dialects.mindsdb.parser, mindsdb_sql.parser.dialects.mysql.parser, mindsdb_sql.parser.parser  # noqa
    from mindsdb_sql.exceptions import ParsingException
    from mindsdb_sql.parser.ast.base import ASTNode
    from sly.lex import LexError
    from vf.props.c02 import site_of
    from vf.gens import corpus, grammar

    dialects = ('mindsdb', 'mysql', 'sqlite')
    words = sorted({w for d in dialects for w in grammar.get(d).all_lexemes('rich')})
    stats = {'execs': 0, 'accepted': 0, 'rejected': 0, 'lexerror': 0, 'sites': {}}
    seen = set()

    class _Timeout(BaseException):
        pass

    def _alarm(*a):
        raise _Timeout()
    signal.signal(signal.SIGALRM, _alarm)

    def decode(data):
        """first byte: dialect; then a mix of dictionary words (byte >= 0x80 selects a word) and raw characters"""
        if not data:
            return 'mindsdb', ''
        d = dialects[data[0] % 3]
        out = []
        i = 1
        while i < len(data):
            b = data[i]
            if b >= 0x80 and i + 1 < len(data):
                out.append(' ' + words[((b & 0x7f) << 8 | data[i + 1]) % len(words)] + ' ')
                i += 2
            else:
                out.append(chr(b))
                i += 1
        return d, ''.join(out)

    def one(data):
        stats['execs'] += 1
        d, sql = decode(data)
        if len(sql) > 400:
            return
        signal.setitimer(signal.ITIMER_REAL, WATCHDOG_S)
        try:
            r = parse_sql(sql, d)
            if isinstance(r, ASTNode):
                stats['accepted'] += 1
            else:
                rec('non-tree-result:' + type(r).__name__, d, sql, repr(r)[:100])
        except ParsingException as e:
            str(e)
            stats['rejected'] += 1
        except LexError as e:
            str(e)
            stats['lexerror'] += 1
        except RecursionError:
            pass
        except _Timeout:
            # the campaign goes on: a parse that does not come back must not stall it (judge() decides again later)
            rec('no-termination', d, sql, f'no result within {WATCHDOG_S}s')
            stats['timeouts'] = stats.get('timeouts', 0) + 1
            if stats['timeouts'] >= 3:      # libFuzzer keeps mutating the slow input: the finding is recorded, stop here
                dump()
                os._exit(0)
        except Exception as e:
            rec(site_of(e), d, sql, f'{type(e).__name__}: {e}')
        finally:
            signal.setitimer(signal.ITIMER_REAL, 0)

    def rec(site, d, sql, detail):
        stats['sites'][site] = stats['sites'].get(site, 0) + 1
        key = (site, d)
        if key not in seen:
            seen.add(key)
            with open(os.path.join(out_dir, f'crash-{len(seen)}.json'), 'w') as f:
                json.dump({'site': site, 'dialect': d, 'sql': sql, 'detail': detail[:300]}, f)

    import atexit

    def dump():
        with open(os.path.join(out_dir, 'stats.json'), 'w') as f:
            json.dump(stats, f)
    # atexit does not run under libFuzzer's exit path: dump periodically instead
    orig_one = one

    def one_counted(data):
        orig_one(data)
        if stats['execs'] % 2000 == 0:
            dump()

    corpus_dir = os.path.join(out_dir, 'corpus')
    os.makedirs(corpus_dir, exist_ok=True)
    if seed_corpus:
        for i, x in enumerate(corpus.accepted()[::40]):
            if len(x['sql']) < 120:
                with open(os.path.join(corpus_dir, f'seed{i}'), 'wb') as f:
                    f.write(bytes([dialects.index(x['dialect'])]) + x['sql'].encode('utf-8', 'ignore'))
    fargs = [argv[0], corpus_dir] + argv[3:]
    atheris.Setup(fargs, one_counted)
    try:
        atheris.Fuzz()
    finally:
        dump()


if __name__ == '__main__':
    main(sys.argv)
